#!/bin/sh
# usage: tools/verify_seed.sh <ID> <n>
# Confirms a sub-agent's seeded change in a scratch worktree of /repo's HEAD:
# patch applies, the repository's tests still pass, demo fails with it and passes without it.
# On success stores it as /verif/seeded/<ID>_<n>/{patch.diff,demo.py,meta.json,notes.md}
id="$1"; n="$2"
src=${SEEDSRC:-/tmp/seeded_out}/$id/$n
wt=/tmp/vseed_${id}_${n}_$$
[ -f "$src/patch.diff" ] || { echo "$id/$n: no patch"; exit 2; }
git -C /repo worktree add --detach -q "$wt" HEAD || exit 3
cleanup() { git -C /repo worktree remove --force "$wt" >/dev/null 2>&1; rm -rf "$wt"; }
cd "$wt"
demo_clean=$(cd "$wt" && /venv/bin/python "$src/demo.py" >/dev/null 2>&1; echo $?)
if ! git apply "$src/patch.diff" 2>/dev/null; then
  if ! patch -p1 -s --fuzz=3 --no-backup-if-mismatch < "$src/patch.diff" >/dev/null 2>&1; then echo "$id/$n: PATCH DOES NOT APPLY to HEAD"; cleanup; exit 4; fi
fi
find . -name '*.orig' -delete; find . -name '*.rej' -delete
git diff > /tmp/vseed_${id}_${n}.diff
tests=$(/venv/bin/python -m pytest -q -p no:cacheprovider 2>&1 | tail -1)
demo_mut=$(/venv/bin/python "$src/demo.py" >/dev/null 2>&1; echo $?)
echo "$id/$n: tests=[$tests] demo_clean_rc=$demo_clean demo_mutant_rc=$demo_mut"
case "$tests" in *"385 passed"*) ok=1;; *) ok=0;; esac
if [ "$ok" = 1 ] && [ "$demo_clean" = 0 ] && [ "$demo_mut" != 0 ]; then
  d=/verif/seeded/${id}_$((n+${SEEDOFF:-0})); mkdir -p "$d"
  cp /tmp/vseed_${id}_${n}.diff "$d/patch.diff"; cp "$src/demo.py" "$d/demo.py"; cp "$src/notes.md" "$d/notes.md" 2>/dev/null
  echo "  KEPT -> $d"
else
  echo "  REJECTED"
fi
rm -f /tmp/vseed_${id}_${n}.diff
cleanup
