#!/usr/bin/env python3
"""Regenerate section 6 of DESIGN.md from seeded/*/meta.json (written by tools/seedmatrix.py)."""
import json
import os
import re

VERIF = os.path.dirname(os.path.dirname(os.path.abspath(__file__)))


def files_of(patch):
    return sorted(set(re.findall(r'^\+\+\+ b/(\S+)', patch, re.M)))


def main():
    rows = []
    seeds = sorted(d for d in os.listdir(os.path.join(VERIF, 'seeded')) if re.match(r'C\d+_\d+$', d))
    caught_own = caught_other = missed = 0
    for s in seeds:
        d = os.path.join(VERIF, 'seeded', s)
        meta = json.load(open(os.path.join(d, 'meta.json'))) if os.path.exists(os.path.join(d, 'meta.json')) else {}
        patch = open(os.path.join(d, 'patch.diff')).read()
        det = meta.get('detection', {})
        pid = s.split('_')[0]
        hits = []
        for key, r in sorted(det.items()):
            if r.get('rc') == 1 and r.get('new_signatures'):
                sig = (r.get('new_signatures') or ['?'])[0]
                hits.append('%s (`%s`)' % (key.split(':')[0], sig[:70]))
        own = any(k.startswith(pid + ':') and r.get('rc') == 1 and r.get('new_signatures') for k, r in det.items())
        if own:
            caught_own += 1
        elif hits:
            caught_other += 1
        else:
            missed += 1
        und = meta.get('undecided')
        notes = ''
        if os.path.exists(os.path.join(d, 'notes.md')):
            txt = open(os.path.join(d, 'notes.md')).read()
            m = re.search(r'(?im)^\W*(?:mechanism|change)\W*:?\W*(.+)$', txt)
            notes = (m.group(1) if m else txt.strip().splitlines()[0]).strip(' *#-')[:110]
        rows.append('| %s | %s | %s | %s |' % (s, ', '.join(f.replace('stdnum/', '') for f in files_of(patch))[:48], notes.replace('|', '/'),
                                               '; '.join(hits) if hits else ('not decided: ' + und if und else '**not caught**')))
    head = ('%d seeded changes (five rounds of 18 independent sub-agents x 3; from round 3 on the authors were asked for changes that a monitor built around the obvious cases would miss). %d are caught by the quick tier of the check of '
            'the property they were written against, %d more only by another check (state- and thread-dependent changes are '
            'C13\'s business whatever property they were aimed at), %d by none (see the note in the last column).\n\n'
            '| seed | files | mechanism (from the author\'s notes) | caught by (first new signature) |\n|---|---|---|---|\n' % (
                len(seeds), caught_own, caught_other, missed))
    table = head + '\n'.join(rows) + '\n'
    p = os.path.join(VERIF, 'DESIGN.md')
    s = open(p).read()
    a = s.index('## 6. Seeded changes: which checks catch which')
    b = s.index('---------------------------------------------------------------------------', a)
    s = s[:a] + '## 6. Seeded changes: which checks catch which\n\n' + table + '\n' + s[b:]
    open(p, 'w').write(s)
    print(len(seeds), caught_own, caught_other, missed)


if __name__ == '__main__':
    main()
