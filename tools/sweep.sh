#!/bin/sh
# usage: tools/sweep.sh "C01 C02 ..." "0 1 2 ..." [tier]  -- prints every unlisted violation signature seen
ids="$1"; seeds="$2"; tier="${3:-quick}"
cd /verif
for id in $ids; do for s in $seeds; do
  VERIF_SEED=$s ./check $id --tier $tier > /tmp/sweep.$$.log 2>&1; rc=$?
  if [ $rc != 0 ]; then echo "== $id seed=$s rc=$rc"; grep "^  C\|^INCONCLUSIVE" /tmp/sweep.$$.log | cut -c1-330; fi
done; done
rm -f /tmp/sweep.$$.log
echo "sweep done: $ids / $seeds / $tier"
