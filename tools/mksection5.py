#!/usr/bin/env python3
"""Refresh the repair table (5.1) and the per-property counts of section 5.2 in DESIGN.md from /repo's git log and
known_findings.json."""
import json
import os
import re
import subprocess
from collections import Counter

VERIF = os.path.dirname(os.path.dirname(os.path.abspath(__file__)))


def main():
    kf = json.load(open(os.path.join(VERIF, 'known_findings.json')))
    fixed = {}
    for line in kf.get('fixed', []):
        m = re.match(r'fixed: property=(C\d+) (\w+) (.*)', line)
        if m:
            fixed[m.group(2)] = (m.group(1), m.group(3))
    log = subprocess.run(['git', '-C', '/repo', 'log', '--reverse', '--format=%h %s'], stdout=subprocess.PIPE, text=True).stdout.splitlines()
    rows = []
    for l in log:
        h, subj = l.split(' ', 1)
        if subj.startswith('fix:'):
            prop, what = fixed.get(h, ('?', ''))
            rows.append('| %s | %s | %s | %s |' % (h, prop, subj[5:].strip().replace('|', '/'), what.replace('|', '/')[:230]))
    table = '| commit | property | subject | failing case before the repair |\n|---|---|---|---|\n' + '\n'.join(rows) + '\n'
    p = os.path.join(VERIF, 'DESIGN.md')
    s = open(p).read()
    a = s.index('### 5.1 Repairs')
    b = s.index('Two repairs that were tried and withdrawn')
    s = s[:a] + '### 5.1 Repairs (%d `fix:` commits, also listed as `fixed:` in known_findings.json)\n\n' % len(rows) + table + '\n' + s[b:]
    counts = Counter(f['property'] for f in kf['findings'])
    total = sum(counts.values())
    s = re.sub(r'### 5\.2 Known findings \(\d+ signatures', '### 5.2 Known findings (%d signatures' % total, s)
    line = 'Counts per property on the current tree: ' + ', '.join('%s %d' % (k, counts[k]) for k in sorted(counts)) + '.'
    if 'Counts per property on the current tree:' in s:
        s = re.sub(r'Counts per property on the current tree:.*', line, s)
    else:
        s = s.replace('* **C01** (25)', line + '\n\n* **C01** (25)', 1)
    open(p, 'w').write(s)
    print(len(rows), 'fixes;', total, 'known findings;', dict(counts))


if __name__ == '__main__':
    main()
