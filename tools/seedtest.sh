#!/bin/sh
# usage: tools/seedtest.sh <patch.diff> <check id> [tier]   -- applies a seeded change to /repo, runs the check, reverts
patch="$1"; id="$2"; tier="${3:-quick}"
cd /repo || exit 9
if [ -n "$(git status --porcelain)" ]; then echo "repo not clean"; exit 9; fi
if ! git apply "$patch" 2>/dev/null; then
  if ! patch -p1 -s --fuzz=3 < "$patch"; then echo "PATCH DOES NOT APPLY"; git checkout -- . ; git clean -fdq; exit 8; fi
fi
cd /verif && ./check "$id" --tier "$tier" > /tmp/seedtest.$$.log 2>&1
rc=$?
grep -v "^KNOWN-FINDING" /tmp/seedtest.$$.log | grep -v "^VIOLATION" | cut -c1-260 | head -12
echo "rc=$rc"
rm -f /tmp/seedtest.$$.log
cd /repo && git checkout -- . && git clean -fdq -e coverage
exit $rc
