#!/usr/bin/env python3
"""Apply each confirmed seeded change to /repo, run the check of its property, revert, record the result.

usage: tools/seedmatrix.py [ID ...] [--tier quick|thorough] [--also C01,C13]   (default: every seeded/<ID>_<n>)
Writes seeded/<ID>_<n>/meta.json and prints a matrix line per seed."""
import json
import os
import re
import subprocess
import sys

VERIF = os.path.dirname(os.path.dirname(os.path.abspath(__file__)))
REPO = os.environ.get('MATRIX_REPO', '/repo')


def sh(cmd, cwd=None, timeout=7200):
    return subprocess.run(cmd, shell=True, cwd=cwd, stdout=subprocess.PIPE, stderr=subprocess.STDOUT, text=True, timeout=timeout)


def main():
    args = sys.argv[1:]
    tier = 'quick'
    also = []
    only = None
    ids = []
    i = 0
    while i < len(args):
        if args[i] == '--tier':
            tier = args[i + 1]; i += 2
        elif args[i] == '--also':
            also = args[i + 1].split(','); i += 2
        elif args[i] == '--only':
            only = args[i + 1].split(','); i += 2
        else:
            ids.append(args[i]); i += 1
    seeds = sorted(d for d in os.listdir(os.path.join(VERIF, 'seeded')) if re.match(r'C\d+_\d+$', d))
    if ids:
        seeds = [s for s in seeds if s.split('_')[0] in ids or s in ids]
    if sh('git status --porcelain', cwd=REPO).stdout.strip():
        print('repo not clean'); return 2
    for s in seeds:
        d = os.path.join(VERIF, 'seeded', s)
        pid = s.split('_')[0]
        if only is None and not os.path.exists(os.path.join(VERIF, 'vm', pid.lower() + '.py')):
            print('%s: no check for %s yet' % (s, pid)); continue
        metap = os.path.join(d, 'meta.json')
        meta = json.load(open(metap)) if os.path.exists(metap) else {}
        r = sh('git apply %s' % os.path.join(d, 'patch.diff'), cwd=REPO)
        if r.returncode != 0:
            print('%s: patch does not apply: %s' % (s, r.stdout[:200])); sh('git checkout -- . && git clean -fdq -e coverage', cwd=REPO); continue
        try:
            results = meta.get('detection', {})
            for cid in (only if only else [pid] + also):
                r = sh('VERIF_EVIDENCE_DIR=/tmp/matrix_out/evidence VERIF_REPO=%s VERIF_OUT=%s ./check %s --tier %s' % (REPO, '/tmp/matrix_out' if REPO != '/repo' else os.path.join(VERIF, 'out'), cid, tier), cwd=VERIF)
                sigs = [l.strip().split(' :: ')[0] for l in r.stdout.splitlines() if l.startswith('  C')]
                results['%s:%s' % (cid, tier)] = {'rc': r.returncode, 'new_signatures': sigs[:8]}
                print('%-8s %s %-8s rc=%d %s' % (s, cid, tier, r.returncode, '; '.join(sigs[:3])[:200]))
        finally:
            sh('git checkout -- . && git clean -fdq -e coverage', cwd=REPO)
        notes = ''
        if os.path.exists(os.path.join(d, 'notes.md')):
            notes = open(os.path.join(d, 'notes.md')).read()
        meta.update({
            'property': pid,
            'origin': 'written by an independent sub-agent given only the property text and a scratch worktree',
            'needs_to_manifest': meta.get('needs_to_manifest') or notes[:1500],
            'confirmed': 'tools/verify_seed.sh: patch applies to /repo HEAD, repository test suite 385 passed with the change, '
                         'demo.py exits 0 without the change and non-zero with it',
            'detection': results,
        })
        json.dump(meta, open(metap, 'w'), indent=1)
    return 0


if __name__ == '__main__':
    sys.exit(main())
