"""C04 - format() preserves the identity of a valid number (DESIGN 3, C04)."""

import inspect

from vm import common as C
from vm import gen

META = {
    'level': 'exploration',
    'rule': ('per module with format(): every accepted presentation (decorations of corpus numbers) x format options '
             '(separator values the module\'s compact() is observed to strip, convert, add_check_digit); three calls '
             'per case: format(x), validate(format(x)) vs validate(x) (documented normalisations for ISMN/ISAN/ISIL/MEID '
             'only), format(validate(x)) vs format(x). distinct_nontrivial = distinct (module, len(validate(x)), '
             'presentation class, option) cells with format(x) != x'),
    'assumptions': ['corpus validity judged by the library (inputs only)'],
}


def eligible():
    return sorted(n for n, m in C.number_modules().items() if hasattr(m, 'format'))


def shards(tier):
    names = eligible()
    n = 32 if tier == 'quick' else 48
    return [{'name': 'm%02d' % i, 'modules': part} for i, part in enumerate(C.chunk(names, n)) if part]


def normalise(name, v):
    """The four documented normalisations of the statement."""
    if not isinstance(v, str):
        return v
    if name == 'ismn':
        from stdnum import ismn
        return ismn.to_ismn13(v)
    if name == 'isan':
        from stdnum import isan
        return isan.compact(v, strip_check_digits=True)
    if name == 'isil':
        parts = v.split('-', 1)
        return parts[0].upper() + ('-' + parts[1] if len(parts) > 1 else '')
    if name == 'meid':
        from stdnum import meid
        return meid.compact(v, strip_check_digit=True)
    return v


def format_optsets(name, mod, sample):
    sets = [{}]
    try:
        params = inspect.signature(mod.format).parameters
    except (TypeError, ValueError):
        return sets
    if 'separator' in params:
        for s in (' ', '-', '', '.'):
            if s == params['separator'].default:
                continue
            # only separators compact() is observed to remove
            try:
                if s == '' or mod.compact(sample[:1] + s + sample[1:]) == mod.compact(sample):
                    sets.append({'separator': s})
            except Exception:  # noqa: B902
                pass
    if 'convert' in params:
        sets.append({'convert': True})
    # the other documented options (representation, check digits), alone and in pairs
    for o in C.option_combos(name, mod.format):
        if 'separator' in o or 'convert' in o or 'region' in o:
            continue
        if o not in sets:
            sets.append(o)
    return sets


def check_case(name, mod, x, fopts, cls, viols):
    """Returns (evals, format_result or None, validate(x) or None)."""
    vopts = {'convert': True} if fopts.get('convert') and name == 'isbn' else {}
    o_v = C.outcome(mod.validate, x, **vopts)
    if o_v[0] != 'ok' or not isinstance(o_v[1], str):
        return 1, None, None
    v = o_v[1]

    def add(clause, what, extra):
        sig = 'C04|%s|%s' % (name, clause)
        if sig in viols:
            viols[sig]['count'] += 1
            return
        w = {'module': name, 'arg': x, 'codepoints': C.codepoints(x)[:300], 'fopts': C.jsonable(fopts), 'cls': cls,
             'validate_x': v}
        w.update(extra)
        viols[sig] = {'sig': sig, 'what': what, 'count': 1, 'witness': w}
    o_f = C.outcome(mod.format, x, **fopts)
    if o_f[0] != 'ok':
        add('A-format-raises', 'validate(%r) returned %r but format(%r, %r) raises %s' % (x, v, x, fopts, o_f[1]),
            {'format': C.jsonable(o_f)})
        return 2, None, v
    f = o_f[1]
    if not isinstance(f, str):
        add('A-format-nonstr', 'format(%r) returned %r' % (x, f), {})
        return 2, None, v
    o_vf = C.outcome(mod.validate, f, **vopts)
    if o_vf[0] != 'ok':
        add('B-formatted-rejected', 'format(%r, %r) = %r is rejected by validate (%s)' % (x, fopts, f, o_vf[1]),
            {'format': f, 'validate_format': C.jsonable(o_vf)})
    else:
        try:
            if fopts.get('add_check_digit') and name == 'imei':
                # the option's documented purpose is to extend the number: compare on the original part
                same = o_vf[1] == v or (len(v) == 14 and o_vf[1].startswith(v) and len(o_vf[1]) == len(v) + 1)
            else:
                same = normalise(name, o_vf[1]) == normalise(name, v)
        except Exception:  # noqa: B902
            same = False
        if not same:
            add('B-formatted-differs', 'validate(format(%r, %r) = %r) = %r but validate(%r) = %r' % (
                x, fopts, f, o_vf[1], x, v), {'format': f, 'validate_format': o_vf[1]})
    o_fv = C.outcome(mod.format, v, **fopts)
    if o_fv[0] != 'ok' or o_fv[1] != f:
        bare = lambda t: ''.join(ch for ch in t if ch.isalnum()).upper()  # noqa: E731
        how = 'input-canonical-up-to-separators' if bare(x) == bare(v) else 'input-in-another-representation'
        add('C-presentation-dependent|' + how, 'format(%r, %r) = %r but format(validate(...) = %r) = %r' % (
            x, fopts, f, v, o_fv[1] if o_fv[0] == 'ok' else o_fv[1]), {'format': f, 'format_of_validated': C.jsonable(o_fv)})
    return 4, f, v


def work(shard, tier):
    mods = C.number_modules()
    viols = {}
    cells = set()
    evals = 0
    counters = {'accepted_cases': 0, 'format_changed_text': 0}
    samples = []
    for name in shard['modules']:
        mod = mods[name]
        rng = C.rng_for('C04', name)
        nums = C.rich_corpus(name, 5 if tier == 'quick' else 150, rng, n_synth=8 if tier == 'quick' else 250)
        if not nums:
            continue
        if hasattr(mod, 'split'):
            b = C.synth_boundaries(name, rng, k=1 if tier == 'quick' else 4)
            nums = nums + rng.sample(b, min(len(b), 60 if tier == 'quick' else 600))
        nums = nums + C.synth_field_extremes(name, rng, k=1 if tier == 'quick' else 3, raw=False, cap=150 if tier == 'quick' else 2000)[:200 if tier == 'quick' else 3000]
        nums = nums + C.synth_table_boundaries(name, rng, cap=150 if tier == 'quick' else 3000)
        fsets = format_optsets(name, mod, nums[0])
        for v0 in nums:
            variants = list(gen.decorations(v0, name, tier, rng))
            for cls, x in variants:
                for fopts in (fsets if cls in ('identity', 'lower', 'surround', 'prefix') else fsets[:1]):
                    e, f, v = check_case(name, mod, x, fopts, cls, viols)
                    evals += e
                    if v is not None:
                        counters['accepted_cases'] += 1
                        if f is not None and f != x:
                            counters['format_changed_text'] += 1
                            cells.add((name, len(v), cls, repr(sorted(fopts.items()))))
                            if len(samples) < 2 and rng.random() < 0.005:
                                samples.append({'module': name, 'input': x, 'format': f, 'validate': v, 'options': fopts})
        # modules whose format() can change the representation: every formatted spelling is formatted again under
        # every option set (decimal-with-check-digit -> hex, 13-digit -> 10-digit ...)
        rep_sets = [o for o in fsets if o and 'separator' not in o]
        if rep_sets:
            for v0 in nums:
                for o1 in fsets:
                    o_x2 = C.outcome(mod.format, v0, **o1)
                    if o_x2[0] != 'ok' or not isinstance(o_x2[1], str) or o_x2[1] == v0:
                        continue
                    for o2 in fsets:
                        e, f, v = check_case(name, mod, o_x2[1], o2, 'reformatted', viols)
                        evals += e
                        if v is not None:
                            counters['accepted_cases'] += 1
                            cells.add((name, len(v), 'reformatted', repr(sorted(o1.items())), repr(sorted(o2.items()))))
        # imei: add_check_digit on 14-digit numbers
        if name == 'imei':
            for v0 in nums:
                c = mod.compact(v0)
                if len(c) == 15:
                    e, f, v = check_case(name, mod, c[:14], {'add_check_digit': True}, 'imei14', viols)
                    evals += e
    return {'evaluations': evals, 'nontrivial': len(cells), 'violations': list(viols.values()), 'samples': samples,
            'counters': counters, 'sets': {'modules_reached': shard['modules']}}


def replay(w):
    mod = C.number_modules()[w['module']]
    viols = {}
    check_case(w['module'], mod, w['arg'], w.get('fopts') or {}, w.get('cls', ''), viols)
    return list(viols.values())
