"""Child process of C10's locale shard: load every shipped registry under whatever locale / encoding settings the
parent chose and print a digest per registry (stdlib + the library only; PYTHONHASHSEED is fixed by the parent)."""
import hashlib
import json
import os
import sys


def main():
    repo = sys.argv[1]
    sys.path.insert(0, repo)
    from stdnum import numdb
    out = {'encoding': [sys.getfilesystemencoding(), sys.flags.utf8_mode, __import__('locale').getpreferredencoding(False)]}
    base = os.path.join(repo, 'stdnum')
    names = []
    for root, _dirs, files in os.walk(base):
        for f in files:
            if f.endswith('.dat'):
                names.append(os.path.relpath(os.path.join(root, f), base)[:-4].replace(os.sep, '/'))
    for name in sorted(names):
        try:
            db = numdb.get(name)
            h = hashlib.sha256()
            n = 0
            stack = [db.prefixes]
            while stack:
                lst = stack.pop()
                for item in lst:
                    n += 1
                    h.update(repr((item[0], item[1], item[2], sorted(item[3].items()))).encode('utf-8', 'backslashreplace'))
                    stack.append(item[4])
            out[name] = [n, h.hexdigest()[:16]]
        except Exception as e:  # noqa: B902
            out[name] = ['EXC', type(e).__name__, str(e)[:120]]
    sys.stdout.write(json.dumps(out, ensure_ascii=True))


if __name__ == '__main__':
    main()
