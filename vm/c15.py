"""C15 - accepted numbers are spelled in ASCII (DESIGN 3, C15)."""

import unicodedata

from vm import common as C
from vm import gen

META = {
    'level': 'exploration',
    'rule': ('per identifier module (generic algorithm modules excluded by the statement): every corpus number x '
             'digit positions x same-valued foreign digits (Nd/No/Nl outside the clean-up table; sampled per position '
             'in quick, one per script block per value in thorough) and x letter positions x letter classes (accented '
             'Latin, Greek/Cyrillic homoglyphs, full-width, case-expanding), whole-number transliteration into 8 '
             'scripts, plus insertions; contract: validate() result .isascii() (national letters of the 3 excepted '
             'modules allowed). distinct_nontrivial = distinct (module, position class, script block / letter class, '
             'outcome) cells'),
    'assumptions': ['Unicode database of the interpreter (15.0)'],
}

ALLOWED_NATIONAL = {
    'de.handelsregisternummer': set('äöüÄÖÜß'),
    'mx.rfc': set('Ññ'),
    'es.referenciacatastral': set('Ññ'),
}


def shards(tier):
    names = sorted(n for n in C.number_modules() if n not in C.GENERIC_ALGOS)
    n = 32 if tier == 'quick' else 64
    return [{'name': 'm%02d' % i, 'modules': part} for i, part in enumerate(C.chunk(names, n)) if part] + \
        [{'name': 'doctest-suite', 'kind': 'doctests', 'modules': []}]


def block_of(ch):
    if len(ch) != 1:
        ch = ch[-1]
    try:
        return unicodedata.name(ch).split(' ')[0]
    except ValueError:
        return 'U+%04X' % ord(ch)


_by_block = None


def digits_by_block():
    """{value: {block: [chars]}} of foreign digits not in the clean-up table."""
    global _by_block
    if _by_block is None:
        table = gen.clean_table()
        _by_block = {}
        for v, chars in gen.fdigits().items():
            for ch in chars:
                if ch in table:
                    continue
                _by_block.setdefault(v, {}).setdefault(block_of(ch), []).append(ch)
    return _by_block


def kind_of(ch):
    cat = unicodedata.category(ch)
    if cat in ('Nd', 'No', 'Nl'):
        return 'digit'
    if cat.startswith('L'):
        return 'letter'
    return 'other'


_OPTS = {}


def check(name, mod, x, cls, viols, only_opts=None):
    """validate(x) under the default and under every documented option value: no result may carry non-ASCII."""
    if name not in _OPTS:
        _OPTS[name] = [{}] + [o for o in C.validate_options(mod) if o]
    first = None
    for opts in ([only_opts] if only_opts is not None else _OPTS[name]):
        o = C.outcome(mod.validate, x, **opts)
        if first is None:
            first = o
        if o[0] == 'ok' and isinstance(o[1], str) and not o[1].isascii():
            bad = [c for c in o[1] if ord(c) > 127 and c not in ALLOWED_NATIONAL.get(name, ())]
            for kind in sorted({kind_of(c) for c in bad}):
                sig = 'C15|%s|nonascii-result|%s' % (name, kind)
                if sig in viols:
                    viols[sig]['count'] += 1
                else:
                    viols[sig] = {'sig': sig, 'count': 1,
                                  'what': 'validate(%r%s) returned %r containing %s' % (x, ', **%r' % opts if opts else '', o[1], ', '.join(
                                      'U+%04X %s' % (ord(c), unicodedata.name(c, '?')) for c in bad[:3])),
                                  'witness': {'module': name, 'arg': x, 'codepoints': C.codepoints(x)[:400], 'cls': cls,
                                              'result': o[1], 'options': C.jsonable(opts)}}
    return first


def work(shard, tier):
    if shard.get('kind') == 'doctests':
        return doctest_suite_work()
    mods = C.number_modules()
    viols = {}
    cells = set()
    evals = 0
    counters = {'accepted': 0, 'accepted_with_foreign_input': 0, 'rejected': 0, 'stray_exceptions': 0}
    samples = []
    byb = digits_by_block()
    for name in shard['modules']:
        mod = mods[name]
        rng = C.rng_for('C15', name)
        allnums = C.corpus(name)
        # the first two numbers (document order) are swept exhaustively and deterministically, so the
        # set of signatures found on a given tree does not depend on the seed; the rest is seed-sampled
        # deterministic part: first number of every (length, first character kind/value) class in document order
        classes = {}
        for v in allnums:
            classes.setdefault((len(v), v[:1] if v[:1].isdigit() else 'L' if v[:1].isalpha() else '?'), v)
        det = list(classes.values())[:8]
        extra = [v for v in allnums if v not in det]
        rng.shuffle(extra)
        nums = det + extra[:2 if tier == 'quick' else 120]
        ndet = len(det)
        for vi, v in enumerate(nums):
            n = len(v)
            dpos = [i for i, c in enumerate(v) if c in '0123456789']
            lpos = [i for i, c in enumerate(v) if c.isalpha() and c.isascii()]
            for p in dpos:
                blocks = byb.get(int(v[p]), {})
                if vi < ndet or (tier == 'thorough' and vi < ndet + 2):
                    chars = [(b, c) for b in sorted(blocks) for c in blocks[b]]
                elif tier == 'quick':
                    bl = rng.sample(sorted(blocks), min(len(blocks), 5))
                    chars = [(b, rng.choice(blocks[b])) for b in bl]
                else:
                    chars = [(b, rng.choice(blocks[b])) for b in sorted(blocks)]
                pc = 'first' if p == 0 else 'last' if p == n - 1 else 'inner'
                for b, ch in chars:
                    x = v[:p] + ch + v[p + 1:]
                    o = check(name, mod, x, 'foreign-digit-subst', viols)
                    evals += 1
                    cells.add((name, pc, b, o[0]))
                    counters['accepted' if o[0] == 'ok' else 'rejected' if o[0] == 've' else 'stray_exceptions'] += 1
                    if o[0] == 'ok':
                        counters['accepted_with_foreign_input'] += 1
                        if len(samples) < 2:
                            samples.append({'module': name, 'input': x, 'result': o[1]})
            for p in lpos:
                pc = 'first' if p == 0 else 'last' if p == n - 1 else 'inner'
                letters = C.CASE_EXPANDING + C.LETTERS_FOREIGN + [
                    unicodedata.normalize('NFC', v[p] + '́'), chr(0xFF21 + ord(v[p].upper()) - 65),
                    chr(0x1D400 + ord(v[p].upper()) - 65), chr(0x24B6 + ord(v[p].upper()) - 65)]
                for ch in letters:
                    for x in (v[:p] + ch + v[p + 1:],):
                        o = check(name, mod, x, 'foreign-letter-subst', viols)
                        evals += 1
                        cells.add((name, pc, 'letter:' + block_of(ch), o[0]))
                        counters['accepted' if o[0] == 'ok' else 'rejected' if o[0] == 've' else 'stray_exceptions'] += 1
                        if o[0] == 'ok':
                            counters['accepted_with_foreign_input'] += 1
            # whole number in another script
            for base in (0x0660, 0x06F0, 0x0966, 0x09E6, 0x0E50, 0x1D7CE, 0x1D7D8, 0x2080):
                x = ''.join(chr(base + int(c)) if c in '0123456789' else c for c in v)
                if x != v:
                    o = check(name, mod, x, 'foreign-digit-all', viols)
                    evals += 1
                    cells.add((name, 'all', block_of(chr(base)), o[0]))
            # insertion of foreign characters (a module may ignore unknown characters but must not echo them)
            for ch in ['٣', '३', 'é', 'Ж', 'Ω', '²', '①', 'Ⅷ', 'ß', 'ı']:
                for p in gen.positions(n, tier, rng, extra=0):
                    o = check(name, mod, v[:p] + ch + v[p:], 'foreign-insert', viols)
                    evals += 1
                    cells.add((name, 'insert', block_of(ch), o[0]))
    return {'evaluations': evals, 'nontrivial': len(cells), 'violations': list(viols.values()), 'samples': samples,
            'counters': counters, 'sets': {'modules_reached': shard['modules']}}


def replay(w):
    viols = {}
    check(w['module'], C.number_modules()[w['module']], w['arg'], w.get('cls', ''), viols, only_opts=w.get('options') or {})
    return list(viols.values())


def doctest_suite_work():
    """The repository's own doctest suite with this property's boundary contract switched on."""
    rec, err = C.run_doctests_with_contracts('C15')
    if err:
        return {'evaluations': 0, 'nontrivial': 0, 'violations': [], 'inconclusive': ['contracts-on doctest run failed: %s' % err]}
    return {'evaluations': rec['calls'], 'nontrivial': 0, 'violations': rec['violations'],
            'samples': [{'workload': 'repository doctest suite under contracts', 'validate_calls': rec['calls'], 'pytest': rec['pytest_tail']}],
            'counters': {'doctest_suite_validate_calls': rec['calls'], 'doctest_suite_accepted_calls': rec['accepted'],
                         'doctest_suite_modules': len(rec['modules'])},
            'sets': {}}
