"""zygote with the C13 call extensions (get_cc_module names, module list) available in the children."""
import os
import sys
sys.path.insert(0, os.path.dirname(os.path.dirname(os.path.abspath(__file__))))
from vm import zygote  # noqa: E402

_orig_child = zygote.child


def child(spec, wfd):
    from vm import c13  # noqa: F401  (installs the extended run_call)
    _orig_child(spec, wfd)


zygote.child = child
if __name__ == '__main__':
    zygote.main()
