"""Discovery of the public call surface of the number modules (shared by C12, C13, C18)."""

import inspect

from vm import common as C

SKIP_PREFIXES = ('check_',)
SKIP_NAMES = {'label', 'to_unicode'}   # deprecated aliases that only warn


def public_functions(mod):
    """{name: function} of public one-argument functions defined in the module (network helpers excluded)."""
    out = {}
    for fname, f in vars(mod).items():
        if fname.startswith('_') or not inspect.isfunction(f) or f.__module__ != mod.__name__:
            continue
        if fname.startswith(SKIP_PREFIXES) or fname in SKIP_NAMES:
            continue
        try:
            params = list(inspect.signature(f).parameters.values())
        except (TypeError, ValueError):
            continue
        if not params:
            continue
        if any(p.name in ('timeout', 'verify') for p in params):
            continue
        required = [p for p in params if p.default is inspect.Parameter.empty and p.kind in (p.POSITIONAL_ONLY, p.POSITIONAL_OR_KEYWORD)]
        if len(required) != 1 or required[0] is not params[0]:
            continue
        out[fname] = f
    return out


def normalise(x, depth=0):
    """Order-insensitive, printable form of a returned value."""
    if isinstance(x, dict):
        return {'__dict__': sorted(([normalise(k, depth + 1), normalise(v, depth + 1)] for k, v in x.items()), key=repr)}
    if isinstance(x, (list, tuple)):
        return {'__%s__' % type(x).__name__: [normalise(i, depth + 1) for i in x]}
    if isinstance(x, (set, frozenset)):
        return {'__set__': sorted((normalise(i, depth + 1) for i in x), key=repr)}
    if isinstance(x, (str, int, bool)) or x is None:
        return x
    return repr(x)


def run_call(spec):
    """Execute one call spec {module, func, args, kwargs}; returns a JSON-able outcome."""
    mod = C.get_module(spec['module'])
    f = getattr(mod, spec['func'])
    o = C.outcome(f, *spec.get('args', []), **spec.get('kwargs', {}))
    if o[0] == 'ok':
        return ['ok', normalise(o[1])], o[1]
    if o[0] == 've':
        return ['ve', o[1]], None
    return ['exc', o[1]], None


def mutate(value, rng):
    """In-place mutation of a returned container (what a caller might do with it)."""
    n = 0
    if isinstance(value, dict):
        for v in list(value.values()):
            n += mutate(v, rng)
        choice = rng.randrange(4)
        if choice == 0:
            value.clear()
        elif choice == 1:
            for k in list(value):
                value[k] = 'POISON'
        elif choice == 2:
            value['poison'] = 'POISON'
            if value:
                value.pop(next(iter(value)))
        else:
            value.update({k: None for k in list(value)})
        return n + 1
    if isinstance(value, list):
        for v in value:
            n += mutate(v, rng)
        choice = rng.randrange(3)
        if choice == 0:
            del value[:]
        elif choice == 1:
            value.append('POISON')
        else:
            value.reverse()
        return n + 1
    if isinstance(value, tuple):
        for v in value:
            n += mutate(v, rng)
    return n
