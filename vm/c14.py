"""C14 - character clean-up never changes the value of a number (DESIGN 3, C14)."""

import unicodedata

from vm import common as C
from vm import gen

META = {
    'level': 'exploration',
    'exhaustive': True,
    'rule': ('(a) exhaustive: clean() on each of the 1,114,112 code points, judged against unicodedata (decimal value, '
             'category Zs, ASCII letters/digits unchanged, no letter/digit produced from a non-digit, length 1 in -> '
             '<= 1 out ... ); (b) string postconditions of clean(s, deletechars) on generated strings and deletechars '
             'sets: order/count preserved, deleted characters absent, idempotent; (c) per module that is observed '
             '(PY_START probe on util.clean) to clean its input: every look-alike of the table substituted for its '
             'ASCII target at positions of valid numbers / inserted where the ASCII separator is accepted: same '
             'validate() outcome as the ASCII spelling. distinct_nontrivial = code points changed by clean() + '
             'distinct (module, ascii char, look-alike) triples compared + distinct string cases with >= 1 mapped or '
             'deleted character'),
    'assumptions': ['Unicode character database of the interpreter is the reference'],
}


THREAD_REPLICA = False   # this monitor uses a process-wide sys.monitoring probe / has its own thread trials


import re  # noqa: E402


def _script_zeros():
    out = []
    for cp in range(0x80, 0x110000):
        c = chr(cp)
        if unicodedata.category(c) == 'Nd' and unicodedata.decimal(c, None) == 0:
            if all(unicodedata.decimal(chr(cp + i), None) == i for i in range(10)):
                out.append(cp)
    return out


SCRIPT_ZEROS = _script_zeros()
NONDECIMAL_DIGITS = [
    {1: '\u00b9', 2: '\u00b2', 3: '\u00b3', 0: '\u2070', 4: '\u2074', 5: '\u2075', 6: '\u2076', 7: '\u2077', 8: '\u2078', 9: '\u2079'},
    {i: chr(0x2080 + i) for i in range(10)},
    {i: chr(0x2460 + i - 1) for i in range(1, 10)},
    {i: chr(0x2776 + i - 1) for i in range(1, 10)},
]


def shards(tier):
    out = [{'name': 'codepoints%02d' % i, 'kind': 'cp', 'lo': lo, 'hi': min(lo + 0x8000, 0x110000)}
           for i, lo in enumerate(range(0, 0x110000, 0x8000))]
    out += [{'name': 'strings%d' % i, 'kind': 'str', 'part': i} for i in range(4)]
    names = sorted(C.number_modules())
    n = 24 if tier == 'quick' else 48
    out += [{'name': 'mod%02d' % i, 'kind': 'mod', 'modules': part} for i, part in enumerate(C.chunk(names, n)) if part]
    return out


def add(viols, sig, what, witness):
    if sig in viols:
        viols[sig]['count'] += 1
    else:
        viols[sig] = {'sig': sig, 'what': what, 'count': 1, 'witness': witness}


def check_codepoint(clean, cp, viols):
    """Returns True if clean changed the code point."""
    c = chr(cp)
    try:
        r = clean(c)
    except Exception as e:  # noqa: B902
        add(viols, 'C14|clean|raises|%s' % type(e).__name__, 'clean(U+%04X) raised %r' % (cp, e), {'kind': 'cp', 'cp': cp})
        return False
    if r == c:
        return False
    name = unicodedata.name(c, 'U+%04X' % cp)
    w = {'kind': 'cp', 'cp': cp, 'name': name, 'result': r}
    if len(r) != 1:
        add(viols, 'C14|clean|codepoint-to-%d-chars' % len(r), 'clean(U+%04X %s) = %r' % (cp, name, r), w)
        return True
    if cp < 128 and (c.isalnum()):
        add(viols, 'C14|clean|ascii-alnum-altered', 'clean(%r) = %r' % (c, r), w)
    if r in '0123456789':
        d = unicodedata.decimal(c, None)
        if d is None or str(d) != r:
            add(viols, 'C14|clean|digit-from-wrong-value', 'clean(U+%04X %s) = %r but its Unicode decimal value is %r' % (
                cp, name, r, d), w)
    elif r.isalpha() or r.isdigit():
        if not c.isdigit() or True:
            add(viols, 'C14|clean|letter-or-digit-produced', 'clean(U+%04X %s) = %r' % (cp, name, r), w)
    elif r == ' ':
        if unicodedata.category(c) != 'Zs':
            add(viols, 'C14|clean|space-from-non-Zs', 'clean(U+%04X %s, category %s) = space' % (
                cp, name, unicodedata.category(c)), w)
    elif ord(r) > 127:
        add(viols, 'C14|clean|non-ascii-target', 'clean(U+%04X %s) = %r' % (cp, name, r), w)
    return True


def check_string(clean, s, d, viols, table):
    """Postconditions of clean(s, d) against an independent model built from
    single-character observations (table = {c: clean(c)} for changed c)."""
    try:
        r = clean(s, d)
    except Exception as e:  # noqa: B902
        add(viols, 'C14|clean|string-raises|%s' % type(e).__name__, 'clean(%r, %r) raised %r' % (s, d, e),
            {'kind': 'str', 's': s, 'd': d})
        return
    w = {'kind': 'str', 's': s, 'd': d, 'result': r}
    expect = ''.join(x for x in (table.get(c, c) for c in s) if x not in d)
    if any(x in d for x in r):
        add(viols, 'C14|clean|deleted-char-survives', 'clean(%r, %r) = %r still contains a character to delete' % (s, d, r), w)
    elif r != expect:
        add(viols, 'C14|clean|order-or-count-changed', 'clean(%r, %r) = %r, expected %r (per-character map then delete)' % (
            s, d, r, expect), w)
    try:
        r2 = clean(r, d)
    except Exception as e:  # noqa: B902
        r2 = repr(e)
    if r2 != r:
        add(viols, 'C14|clean|not-idempotent', 'clean(clean(%r, %r), %r): %r then %r' % (s, d, d, r, r2), w)


def work(shard, tier):
    from stdnum import util
    clean = util.clean
    viols = {}
    evals = 0
    nontriv = 0
    counters = {}
    samples = []
    sets = {}
    if shard['kind'] == 'cp':
        changed = 0
        for cp in range(shard['lo'], shard['hi']):
            evals += 1
            if check_codepoint(clean, cp, viols):
                changed += 1
                if len(samples) < 2:
                    samples.append({'codepoint': 'U+%04X' % cp, 'name': unicodedata.name(chr(cp), '?'), 'clean': clean(chr(cp))})
        nontriv = changed
        counters['codepoints_swept'] = shard['hi'] - shard['lo']
        counters['codepoints_changed_by_clean'] = changed
    elif shard['kind'] == 'str':
        rng = C.rng_for('C14', shard['name'])
        # the model uses what clean() itself was observed to do per single character
        table = {}
        for cp in range(0x110000):
            c = chr(cp)
            try:
                r = clean(c)
            except Exception:  # noqa: B902
                continue
            if r != c:
                table[c] = r
        keys = sorted(table)
        targets = sorted(set(table.values()))
        alphabet = keys + targets + list('0123456789ABCxyz \t\n') + C.CASE_EXPANDING + ['́', '\ud800', 'é', '٣']
        n = 3000 if tier == 'quick' else 400000
        for i in range(n):
            L = rng.choice((0, 1, 2, 3, 5, 8, 13, 40))
            s = ''.join(rng.choice(alphabet) for _ in range(L))
            dk = rng.choice((0, 1, 2, 4, 8))
            pool = targets + list(' -./:,*') + keys[:40] + list('0aA')
            d = ''.join(rng.choice(pool) for _ in range(dk))
            check_string(clean, s, d, viols, table)
            evals += 2
            if any(c in table or c in d for c in s):
                nontriv += 1
            if i < 2:
                samples.append({'s': s, 'deletechars': d, 'clean': clean(s, d)})
        # characters that attach to the one before them (keycap, variation selectors, joiners, combining marks): the
        # clean-up works character by character, whatever stands next to it
        attach = ['\ufe0f\u20e3', '\u20e3', '\ufe0f', '\ufe0e', '\u200d', '\u0301', '\u0338', '\u3099', '\U000e0031', '\u061c']
        for base_ch in list('0123456789') + ['A', 'z', '-', ' ', '#', '*', '\uff11', '\u2013']:
            for att in attach:
                for s2 in (base_ch + att, base_ch + att + '3', '7' + base_ch + att, att + base_ch, base_ch + att + att):
                    for d2 in ('', ' -', att[:1]):
                        check_string(clean, s2, d2, viols, table)
                        evals += 2
                        nontriv += 1
        counters['string_cases'] = n
    else:
        mods = C.number_modules()
        table = gen.clean_table()
        inv = {}
        for k, v in table.items():
            inv.setdefault(v, []).append(k)
        probe = C.Probe()
        probe.start()
        hits = [0]
        probe.watch(util.clean, 'clean')
        probe.on_start = lambda tag, frame: hits.__setitem__(0, hits[0] + 1)
        triples = set()
        cleaners = []
        for name in shard['modules']:
            mod = mods[name]
            rng = C.rng_for('C14', name)
            nums = C.corpus(name, limit=4 if tier == 'quick' else 120, rng=rng)
            if not nums:
                continue
            h0 = hits[0]
            for probe_input in (nums[0], ' ' + nums[0], nums[0][:1] + '-' + nums[0][1:], nums[-1] + '.'):
                C.outcome(mod.validate, probe_input)
            if hits[0] == h0:
                continue   # module does no clean-up: outside this clause
            cleaners.append(name)
            for v in nums:
                base = C.short(C.outcome(mod.validate, v))
                n = len(v)
                # (1) substitute look-alikes for characters present in the number
                for p, ch in enumerate(v):
                    alts = inv.get(ch, [])
                    if tier == 'quick' and len(alts) > 6:
                        alts = rng.sample(alts, 6)
                    for a in alts:
                        y = v[:p] + a + v[p + 1:]
                        o = C.short(C.outcome(mod.validate, y))
                        evals += 1
                        triples.add((name, ch, a))
                        if o != base:
                            add(viols, 'C14|%s|lookalike-differs' % name,
                                'validate(%r) = %r but the look-alike spelling %r (U+%04X for %r) gives %r' % (
                                    v, base, y, ord(a), ch, o),
                                {'kind': 'mod', 'module': name, 'ascii': v, 'lookalike': y})
                # (1b) every character that has look-alikes replaced at once, one family per variant
                for fam in range(4):
                    y = ''.join((sorted(inv[ch])[fam % len(inv[ch])] if ch in inv else ch) for ch in v)
                    if y != v:
                        o = C.short(C.outcome(mod.validate, y))
                        evals += 1
                        triples.add((name, 'all', str(fam)))
                        if o != base:
                            add(viols, 'C14|%s|lookalike-differs' % name,
                                'validate(%r) = %r but the all-look-alike spelling %r gives %r' % (v, base, y, o),
                                {'kind': 'mod', 'module': name, 'ascii': v, 'lookalike': y})
                # (1c) every digit typed in another script (Unicode decimal digits Nd): if the module accepts that spelling
                # at all it must denote the same number (a module may have a digit map of its own)
                if any(ch.isdigit() for ch in v):
                    for zero in (SCRIPT_ZEROS if tier == 'thorough' else rng.sample(SCRIPT_ZEROS, 12) + [0x0660, 0x06F0, 0xFF10]):
                        y = ''.join(chr(zero + int(ch)) if ch in '0123456789' else ch for ch in v)
                        o = C.short(C.outcome(mod.validate, y))
                        evals += 1
                        triples.add((name, 'script', hex(zero)))
                        if o[0] == 'ok' and o != base and isinstance(o[1], str) and o[1].isascii():
                            # (a non-ASCII result is a pass-through, which is C15's business, not a wrong translation)
                            add(viols, 'C14|%s|other-script-digits-change-the-number' % name,
                                'validate(%r) = %r but the same digits typed as %r give %r' % (v, base, y, o),
                                {'kind': 'mod', 'module': name, 'ascii': v, 'lookalike': y, 'clause': 'other-script'})
                    # characters with a digit value but no decimal value (superscripts, circled digits) must not be
                    # turned into digits
                    dpos = [i for i, ch in enumerate(v) if ch in '0123456789']
                    for p in rng.sample(dpos, min(len(dpos), 3)):
                        for fam in NONDECIMAL_DIGITS:
                            a = fam.get(int(v[p]))
                            if a is None:
                                continue
                            y = v[:p] + a + v[p + 1:]
                            o = C.short(C.outcome(mod.validate, y))
                            evals += 1
                            triples.add((name, 'nondecimal', a))
                            if o[0] == 'ok' and o == base and base[0] == 'ok':
                                add(viols, 'C14|%s|non-decimal-character-read-as-digit' % name,
                                    'validate(%r) = %r: U+%04X has no Unicode decimal value but was read as %s' % (y, o, ord(a), v[p]),
                                    {'kind': 'mod', 'module': name, 'ascii': v, 'lookalike': y, 'clause': 'non-decimal'})
                # (1d) the same number with leading zeros of its separated sections dropped, if that spelling is accepted:
                # look-alike separators must then work as the ASCII ones do
                parts = re.split(r'([ \-./])', v)
                if len(parts) >= 3:
                    short = ''.join((pt.lstrip('0') or '0') if i % 2 == 0 and pt.isdigit() else pt for i, pt in enumerate(parts))
                    if short != v:
                        bs = C.short(C.outcome(mod.validate, short))
                        if bs[0] == 'ok':
                            for ch in sorted(set(short)):
                                for a in (inv.get(ch, [])[:6] if not ch.isalnum() else []):
                                    y = short.replace(ch, a)
                                    o = C.short(C.outcome(mod.validate, y))
                                    evals += 1
                                    triples.add((name, 'short-sections', a))
                                    if o != bs:
                                        add(viols, 'C14|%s|lookalike-differs' % name,
                                            'validate(%r) = %r but the look-alike spelling %r gives %r' % (short, bs, y, o),
                                            {'kind': 'mod', 'module': name, 'ascii': short, 'lookalike': y})
                # (3) other ASCII spellings the module accepts (the characters regrouped with another separator, the
                # number behind its printed label): their look-alike spellings must give the same result
                bare = ''.join(ch for ch in v if ch.isalnum())
                label = name.split('.')[-1].upper()
                spellings = []
                for g in (2, 3, 4):
                    for sep in '.-: ':
                        if len(bare) > g:
                            spellings.append(sep.join(bare[i:i + g] for i in range(0, len(bare), g)))
                for lab in (label + ' ', label + ': ', label + ':', label + '-L ', 'e-' + label + ' ', label.lower() + ' ', label + ' No. '):
                    spellings.append(lab + v)
                for sp in spellings:
                    if sp == v:
                        continue
                    osp = C.short(C.outcome(mod.validate, sp))
                    evals += 1
                    if osp[0] != 'ok':
                        continue
                    for ch in sorted(set(sp)):
                        if ch.isalnum() or ch not in inv:
                            continue
                        alts = inv[ch] if tier == 'thorough' else rng.sample(inv[ch], min(len(inv[ch]), 3))
                        for a in alts:
                            first = sp.index(ch)
                            for y in {sp.replace(ch, a), sp[:first] + a + sp[first + 1:]}:
                                o = C.short(C.outcome(mod.validate, y))
                                evals += 1
                                triples.add((name, 'spelling:' + ch, a))
                                if o != osp:
                                    add(viols, 'C14|%s|lookalike-differs' % name,
                                        'validate(%r) = %r but the look-alike spelling %r (U+%04X for %r) gives %r' % (
                                            sp, osp, y, ord(a), ch, o),
                                        {'kind': 'mod', 'module': name, 'ascii': sp, 'lookalike': y})
                # (2) insert ASCII separators and, where accepted with the same result, their look-alikes
                for sep in " -./:,*'":
                    alts = inv.get(sep, [])
                    if not alts:
                        continue
                    for p in gen.positions(n, 'quick', rng, extra=0):
                        xa = v[:p] + sep + v[p:]
                        oa = C.short(C.outcome(mod.validate, xa))
                        evals += 1
                        for a in (alts if tier == 'thorough' else rng.sample(alts, min(len(alts), 3))):
                            y = v[:p] + a + v[p:]
                            o = C.short(C.outcome(mod.validate, y))
                            evals += 1
                            triples.add((name, sep, a))
                            if o != oa:
                                add(viols, 'C14|%s|lookalike-differs' % name,
                                    'validate(%r) = %r but the look-alike spelling %r (U+%04X for %r) gives %r' % (
                                        xa, oa, y, ord(a), sep, o),
                                    {'kind': 'mod', 'module': name, 'ascii': xa, 'lookalike': y})
        probe.stop()
        nontriv = len(triples)
        counters['module_lookalike_triples'] = len(triples)
        sets['modules_observed_cleaning'] = cleaners
        if triples:
            t = sorted(triples)[0]
            samples.append({'module': t[0], 'ascii': t[1], 'lookalike': 'U+%04X' % ord(t[2])})
    return {'evaluations': evals, 'nontrivial': nontriv, 'violations': list(viols.values()), 'samples': samples,
            'counters': counters, 'sets': sets}


def finish(agg, tier):
    inc = []
    if agg['counters'].get('codepoints_swept', 0) != 0x110000:
        inc.append('code point sweep incomplete: %d' % agg['counters'].get('codepoints_swept', 0))
    if agg['counters'].get('codepoints_changed_by_clean', 0) < 50:
        inc.append('clean() changed fewer than 50 code points: the table was not reached')
    if len(agg['sets'].get('modules_observed_cleaning', ())) < 100:
        inc.append('fewer than 100 modules observed calling clean()')
    return {'inconclusive': inc}


def replay(w):
    from stdnum import util
    viols = {}
    if w['kind'] == 'cp':
        check_codepoint(util.clean, w['cp'], viols)
    elif w['kind'] == 'str':
        table = {chr(cp): util.clean(chr(cp)) for cp in range(0x110000) if util.clean(chr(cp)) != chr(cp)}
        check_string(util.clean, w['s'], w['d'], viols, table)
    else:
        mod = C.number_modules()[w['module']]
        a = C.short(C.outcome(mod.validate, w['ascii']))
        b = C.short(C.outcome(mod.validate, w['lookalike']))
        clause = w.get('clause', 'lookalike')
        if clause == 'non-decimal':
            if b[0] == 'ok' and a == b:
                add(viols, 'C14|%s|non-decimal-character-read-as-digit' % w['module'], '%r read as %r' % (w['lookalike'], b), w)
        elif clause == 'other-script':
            if b[0] == 'ok' and a != b and isinstance(b[1], str) and b[1].isascii():
                add(viols, 'C14|%s|other-script-digits-change-the-number' % w['module'], '%r vs %r' % (a, b), w)
        elif a != b:
            add(viols, 'C14|%s|lookalike-differs' % w['module'], '%r vs %r' % (a, b), w)
    return list(viols.values())
