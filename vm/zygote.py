"""Pristine-process oracle (DESIGN 3, C13): a process that has imported only the standard library forks one
child per call; the child imports the library, performs the call and reports the normalised outcome.

stdin: one JSON call spec per line; stdout: one JSON line {id, outcome} per spec (in order).
"""
import json
import os
import sys

VERIF = os.path.dirname(os.path.dirname(os.path.abspath(__file__)))


def child(spec, wfd):
    sys.path.insert(0, VERIF)
    try:
        from vm import common as C
        from vm import calls
        C.setup_repo()
        if spec.get('clock'):
            import datetime
            C.get_module(spec['module'])
            C.install_clock()
            C.set_clock(datetime.date.fromisoformat(spec['clock']))
        pre = spec.get('before') or []
        for s in pre:
            calls.run_call(s)
        out, _raw = calls.run_call(spec)
    except BaseException as e:  # noqa: B902
        out = ['harness-error', repr(e)]
    data = json.dumps({'id': spec.get('id'), 'outcome': out}).encode()
    os.write(wfd, data)
    os._exit(0)


def main():
    assert not any(m == 'stdnum' or m.startswith('stdnum.') for m in sys.modules)
    for line in sys.stdin:
        line = line.strip()
        if not line:
            continue
        spec = json.loads(line)
        r, w = os.pipe()
        pid = os.fork()
        if pid == 0:
            os.close(r)
            child(spec, w)
        os.close(w)
        chunks = []
        while True:
            b = os.read(r, 65536)
            if not b:
                break
            chunks.append(b)
        os.close(r)
        os.waitpid(pid, 0)
        data = b''.join(chunks).decode() or json.dumps({'id': spec.get('id'), 'outcome': ['harness-error', 'no output']})
        sys.stdout.write(data + '\n')
        sys.stdout.flush()


if __name__ == '__main__':
    main()
