"""C02 - validate() returns a canonical fixed point (DESIGN 3, C02)."""

from vm import common as C
from vm import gen

META = {
    'level': 'exploration',
    'rule': ('per module: corpus numbers x presentation decorations (every pool character inserted at sampled/all '
             'positions, every-gap, double inserts, surrounding whitespace, case, country/label prefixes with '
             'separators or control characters after them) plus the hostile C01 strings, x every validate() option; '
             'every accepted call is re-fed to validate() with the same options. distinct_nontrivial = distinct '
             '(module, decoration class, options, input-differs-from-result) cells with an accepted input whose '
             'result differs from the input text'),
    'assumptions': ['corpus validity judged by the library (inputs only)'],
}


def shards(tier):
    names = sorted(C.number_modules())
    n = 32 if tier == 'quick' else 64
    return [{'name': 'm%02d' % i, 'modules': part} for i, part in enumerate(C.chunk(names, n)) if part] + \
        [{'name': 'doctest-suite', 'kind': 'doctests', 'modules': []}]


def gs1_class(items):
    """Class of a generated element string: decimal values and variable-length dates have recorded codec defects (C16)."""
    for _ai, props, _raw in items:
        t = props.get('type', 'str')
        if t == 'decimal' or (t == 'date' and props['format'] not in ('N6', 'N10')):
            return 'generated-element-string:decimal-or-variable-date-values'
    return 'generated-element-string:plain-values'


def check_one(name, mod, x, opts, cls, viols):
    o1 = C.outcome(mod.validate, x, **opts)
    if o1[0] != 'ok' or not isinstance(o1[1], str):
        return o1, None
    v = o1[1]
    o2 = C.outcome(mod.validate, v, **opts)

    def add(clause, what):
        # the trigger keeps a finding about exotic characters from hiding one about plain input
        trigger = 'plain-input' if all('!' <= ch <= '~' for ch in x.strip(' ')) else 'blank-control-or-non-ascii-inside'
        if name == 'gs1_128':
            # validate() does not hold element strings against their declared formats, and decimal / padded values
            # have recorded round-trip defects (C16): keep those apart from well-formed strings of plain values
            if cls.startswith('generated-element-string'):
                trigger = cls
            elif cls in ('identity', 'lower', 'swapcase', 'mixedcase', 'surround', 'doctest'):
                trigger = 'trivially-decorated-element-string'
            else:
                trigger = 'characters-inserted-into-element-string'
        sig = 'C02|%s|%s|%s' % (name, clause, trigger)
        if sig in viols:
            viols[sig]['count'] += 1
            return
        viols[sig] = {'sig': sig, 'what': what, 'count': 1,
                      'witness': {'module': name, 'arg': x, 'codepoints': C.codepoints(x)[:400], 'options': C.jsonable(opts),
                                  'cls': cls, 'first': v, 'second': C.jsonable(o2)}}
    if v != v.strip():
        add('surrounding-whitespace', 'validate(%r) returned %r which carries leading/trailing whitespace' % (x, v))
    if o2[0] != 'ok':
        add('refeed-rejected', 'validate(%r) returned %r but validating that again raises %s' % (x, v, o2[1]))
    elif o2[1] != v:
        add('refeed-changed', 'validate(%r) returned %r but validating that again returns %r' % (x, v, o2[1]))
    return o1, o2


def inputs_for(name, mod, tier, rng):
    nums = C.rich_corpus(name, 5 if tier == 'quick' else 30, rng)
    for v in nums:
        for cls, x in gen.decorations(v, name, tier, rng):
            yield cls, x
    for cls, pc, x in gen.hostile_strings(nums[:2 if tier == 'quick' else 8], tier, rng):
        yield 'hostile:' + cls, x
    # extreme field values (2**k - 1, 2**k, 2**k + 1, runs of 9 / F / Z / 0) written into every window of the known
    # spellings (raw candidates as well as repaired ones)
    for x in C.synth_field_extremes(name, rng, k=1 if tier == 'quick' else 3, raw=True, cap=400 if tier == 'quick' else 4000):
        yield 'extreme-field', x
    # strings that start with the letters of the format's own label, bare and behind the printed label (raw candidates:
    # whether they are accepted is for the library to say)
    label = name.split('.')[-1].upper()
    for v in nums[:3]:
        o = C.outcome(mod.validate, v)
        c = o[1] if o[0] == 'ok' and isinstance(o[1], str) else v
        if not c[:1].isalpha():
            continue
        for j in range(2, len(label) + 1):
            cand = label[:j] + c[j:]
            for x in (cand, label + ' ' + cand, label + ': ' + cand, label + cand, label.lower() + ' ' + cand, label + ' ' + c, label + ':' + c):
                yield 'label-start', x


def work(shard, tier):
    if shard.get('kind') == 'doctests':
        return doctest_suite_work()
    mods = C.number_modules()
    viols = {}
    cells = set()
    evals = 0
    counters = {'accepted': 0, 'accepted_noncanonical': 0, 'refed': 0}
    samples = []
    reached = []
    for name in shard['modules']:
        mod = mods[name]
        rng = C.rng_for('C02', name)
        optsets = [{}] + C.validate_options(mod)
        nonc = 0
        for cls, x in inputs_for(name, mod, tier, rng):
            for opts in (optsets if cls in ('identity', 'lower', 'surround', 'prefix', 'prefix-sep') else optsets[:1]):
                o1, o2 = check_one(name, mod, x, opts, cls, viols)
                evals += 1
                if o2 is not None:
                    evals += 1
                    counters['accepted'] += 1
                    counters['refed'] += 1
                    if o1[1] != x:
                        nonc += 1
                        counters['accepted_noncanonical'] += 1
                        cells.add((name, cls, repr(sorted(opts.items()))))
                        if len(samples) < 2 and rng.random() < 0.01:
                            samples.append({'module': name, 'class': cls, 'input': x, 'result': o1[1]})
        if name == 'gs1_128':
            # element strings generated from the AI table (every registered AI), with and without separator
            import os
            from vm import c16, gs1gen
            ais = gs1gen.read_ais(os.path.join(C.REPO, 'stdnum', 'gs1_ai.dat'))
            # deterministic pass: every AI once with a leading-zero / minimal value, followed by AI 99 (which sorts last)
            filler = [a for a in ais if a[0] == '99'][:1]
            det = []
            for ai, props in ais:
                for shape in ('min', 'max'):
                    try:
                        raw = gs1gen.raw_value(props['format'], props.get('type', 'str'), rng, shape, forbid='()|\x1d', max_decimals=0)
                    except gs1gen.UnsupportedFormat:
                        continue
                    if props.get('type', 'str') in ('str', 'int') and raw[:1].isdigit() and len(raw) > 1 and props['format'].startswith('N') and '+' not in props['format'] and '[' not in props['format']:
                        raw = '0' + raw[1:]
                    if ai in ('01', '02'):
                        from stdnum import ean as _ean
                        raw = raw[:13] + _ean.calc_check_digit(raw[:13])
                    if ai == '8007':
                        raw = 'NL91ABNA0417164300'
                    det.append([(ai, props, raw.strip() or 'A')] + ([(filler[0][0], filler[0][1], 'A')] if filler and ai != '99' else []))
            for items in det:
                items.sort(key=lambda t: (bool(t[1].get('fnc1')), t[0]))
                for sep in ('', '|'):
                    x = c16.build(items, sep, False, rng)
                    if x is None:
                        continue
                    o1, o2 = check_one(name, mod, x, {'separator': sep} if sep else {}, gs1_class(items), viols)
                    evals += 1
                    if o2 is not None:
                        evals += 1
                        counters['accepted'] += 1
                        counters['refed'] += 1
            for i in range(2500 if tier == 'quick' else 40000):
                k = rng.choice((1, 2, 2, 3))
                chosen = [ais[i % len(ais)]] + rng.sample(ais, k - 1)
                sep = rng.choice(('', '', '|', '\x1d'))
                items = []
                try:
                    for ai, props in chosen:
                        raw = gs1gen.raw_value(props['format'], props.get('type', 'str'), rng, rng.choice(('min', 'max', 'random')), forbid='()|\x1d', max_decimals=2)
                        if ai in ('01', '02'):
                            from stdnum import ean as _ean
                            raw = raw[:13] + _ean.calc_check_digit(raw[:13])
                        if ai == '8007':
                            raw = 'NL91ABNA0417164300'
                        items.append((ai, props, raw.strip() or 'A'))
                except gs1gen.UnsupportedFormat:
                    continue
                items.sort(key=lambda t: (bool(t[1].get('fnc1')), t[0]))
                x = c16.build(items, sep, rng.random() < 0.3, rng)
                if x is None:
                    continue
                o1, o2 = check_one(name, mod, x, {'separator': sep} if sep else {}, gs1_class(items), viols)
                evals += 1
                if o2 is not None:
                    evals += 1
                    counters['accepted'] += 1
                    counters['refed'] += 1
                    if o1[1] != x:
                        nonc += 1
                        cells.add((name, 'generated', items[0][1]['format']))
        # table-driven spellings (court names, aliases, region prefixes ...): every module string constant
        # substituted for the constant found in a valid number; identity presentation only
        for x in C.constant_variants(name, C.corpus(name), rng, cap=1000):
            o1, o2 = check_one(name, mod, x, {}, 'constant-variant', viols)
            evals += 1
            if o2 is not None:
                evals += 1
                counters['accepted'] += 1
                counters['refed'] += 1
                if o1[1] != x:
                    nonc += 1
                    cells.add((name, 'constant-variant', x[:12]))
        if nonc:
            reached.append(name)
    return {'evaluations': evals, 'nontrivial': len(cells), 'violations': list(viols.values()), 'samples': samples,
            'counters': counters, 'sets': {'modules_with_noncanonical_accepted': reached}}


def finish(agg, tier):
    mods = C.number_modules()
    with_compact = {n for n, m in mods.items() if hasattr(m, 'compact')} - set(C.GENERIC_ALGOS)
    missing = sorted(with_compact - set(agg['sets'].get('modules_with_noncanonical_accepted', ())))
    out = {'modules_total': len(mods), 'modules_without_accepted_noncanonical_presentation': missing}
    if len(missing) > 12:
        out['inconclusive'] = ['no accepted non-canonical presentation found for %d modules with compact(): %s' % (
            len(missing), ', '.join(missing[:30]))]
    return out


def replay(w):
    mod = C.number_modules()[w['module']]
    viols = {}
    check_one(w['module'], mod, w['arg'], w.get('options') or {}, w.get('cls', ''), viols)
    return list(viols.values())


def doctest_suite_work():
    """The repository's own doctest suite with this property's boundary contract switched on."""
    rec, err = C.run_doctests_with_contracts('C02')
    if err:
        return {'evaluations': 0, 'nontrivial': 0, 'violations': [], 'inconclusive': ['contracts-on doctest run failed: %s' % err]}
    return {'evaluations': rec['calls'], 'nontrivial': 0, 'violations': rec['violations'],
            'samples': [{'workload': 'repository doctest suite under contracts', 'validate_calls': rec['calls'], 'pytest': rec['pytest_tail']}],
            'counters': {'doctest_suite_validate_calls': rec['calls'], 'doctest_suite_accepted_calls': rec['accepted'],
                         'doctest_suite_modules': len(rec['modules'])},
            'sets': {}}
