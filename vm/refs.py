"""Independent transcriptions of the published rules of 19 international identifiers (DESIGN 3, C07).

No code of the library is used.  Each reference takes the electronic (compact) form of an identifier and returns
(canonical, None) when the standard accepts it or (None, reason) when it does not.  Tables that the standards
delegate to registries (country codes, IBAN structures) are passed in by the caller, read from the same files the
library ships, as the property requires.
"""

import hashlib
import re

DIGITS = '0123456789'
UPPER = 'ABCDEFGHIJKLMNOPQRSTUVWXYZ'
ALNUM = DIGITS + UPPER


def _isdigits(s):
    return s != '' and all(c in DIGITS for c in s)


def _gtin_check(body):
    """GS1 General Specifications 7.9: weights 3,1,3,... from the rightmost body digit."""
    total = 0
    for i, c in enumerate(reversed(body)):
        total += int(c) * (3 if i % 2 == 0 else 1)
    return str((10 - total % 10) % 10)


def _mod97(s):
    """ISO 7064 MOD 97-10 on an alphanumeric string (letters A=10 .. Z=35), computed piecewise."""
    r = 0
    for c in s:
        if c in DIGITS:
            r = (r * 10 + int(c)) % 97
        elif c in UPPER:
            r = (r * 100 + 10 + UPPER.index(c)) % 97
        else:
            return None
    return r


def _luhn_ok(digits):
    total = 0
    for i, c in enumerate(reversed(digits)):
        d = int(c)
        if i % 2 == 1:
            d *= 2
            if d > 9:
                d -= 9
        total += d
    return total % 10 == 0


# ---------------------------------------------------------------------------

def ref_isbn(s, t):
    """ISO 2108 / ISBN Users' Manual: ISBN-10 (mod 11, weights 10..1, X = 10 only as check) or ISBN-13 (EAN-13 with
    prefix 978/979).  Nine-digit SBNs are the documented predecessor and are read as ISBN-10 with a leading zero."""
    if len(s) == 9 and _isdigits(s[:-1]):
        s = '0' + s
    if len(s) == 10:
        if not _isdigits(s[:9]) or s[9] not in DIGITS + 'X':
            return None, 'alphabet'
        total = sum((10 - i) * int(c) for i, c in enumerate(s[:9])) + (10 if s[9] == 'X' else int(s[9]))
        return (s, None) if total % 11 == 0 else (None, 'checksum')
    if len(s) == 13:
        if not _isdigits(s):
            return None, 'alphabet'
        if s[:3] not in ('978', '979'):
            return None, 'prefix'
        return (s, None) if _gtin_check(s[:12]) == s[12] else (None, 'checksum')
    return None, 'length'


def ref_ean(s, t):
    """GS1 General Specifications: GTIN-8, -12, -13, -14, all digits, modulo-10 check digit."""
    if not _isdigits(s):
        return None, 'alphabet'
    if len(s) not in (8, 12, 13, 14):
        return None, 'length'
    return (s, None) if _gtin_check(s[:-1]) == s[-1] else (None, 'checksum')


def ref_issn(s, t):
    """ISO 3297: seven digits and a check character (weights 8..2, mod 11, X = 10)."""
    if len(s) != 8:
        return None, 'length'
    if not _isdigits(s[:7]) or s[7] not in DIGITS + 'X':
        return None, 'alphabet'
    total = sum((8 - i) * int(c) for i, c in enumerate(s[:7]))
    check = (11 - total % 11) % 11
    return (s, None) if ('X' if check == 10 else str(check)) == s[7] else (None, 'checksum')


def ref_ismn(s, t):
    """ISO 10957: 13 digits 979-0-..., EAN-13 check digit; the legacy 10-character form is M + 8 digits + check,
    computed as for 9790 + digits."""
    if len(s) == 10:
        if s[0] != 'M':
            return None, 'prefix'
        if not _isdigits(s[1:]):
            return None, 'alphabet'
        return (s, None) if _gtin_check('9790' + s[1:9]) == s[9] else (None, 'checksum')
    if len(s) == 13:
        if not _isdigits(s):
            return None, 'alphabet'
        if s[:4] != '9790':
            return None, 'prefix'
        return (s, None) if _gtin_check(s[:12]) == s[12] else (None, 'checksum')
    return None, 'length'


def ref_isin(s, t):
    """ISO 6166: two-letter prefix from the registered country list, nine alphanumeric characters, one check digit
    computed with the 'modulus 10 double add double' rule on the digit expansion (A=10 .. Z=35)."""
    if len(s) != 12:
        return None, 'length'
    if any(c not in ALNUM for c in s):
        return None, 'alphabet'
    if s[:2] not in t['isin_countries']:
        return None, 'country'
    if s[11] not in DIGITS:
        return None, 'checksum'
    expanded = ''.join(str(ALNUM.index(c)) for c in s[:11])
    return (s, None) if _luhn_ok(expanded + s[11]) else (None, 'checksum')


def _struct_regex(structure):
    """SWIFT IBAN registry notation: n digits, a upper-case letters, c alphanumeric, e blank; ! fixed length."""
    out = ''
    pos = 0
    for m in re.finditer(r'(\d+)(!?)([nace])', structure):
        if m.start() != pos:
            return None
        pos = m.end()
        n, fixed, kind = m.group(1), m.group(2), m.group(3)
        cls = {'n': '[0-9]', 'a': '[A-Z]', 'c': '[A-Za-z0-9]', 'e': ' '}[kind]
        out += '%s{%s}' % (cls, n if fixed else '1,' + n)
    if pos != len(structure):
        return None
    return re.compile('^' + out + '$')


def _be_bban_ok(b):      # Belgian account: last two digits = first ten mod 97 (97 when 0)
    return _isdigits(b) and len(b) == 12 and (int(b[:10]) % 97 or 97) == int(b[10:])


def _es_dc(digits):
    weights = (1, 2, 4, 8, 5, 10, 9, 7, 3, 6)
    r = 11 - sum(w * int(d) for w, d in zip(weights, digits.rjust(10, '0'))) % 11
    return {10: '1', 11: '0'}.get(r, str(r))


def _es_bban_ok(b):      # Spanish CCC: two control digits over bank+branch and account
    return _isdigits(b) and len(b) == 20 and b[8] == _es_dc(b[:8]) and b[9] == _es_dc(b[10:])


def _no_bban_ok(b):      # Norwegian account: mod 11 with weights 5,4,3,2,7,6,5,4,3,2
    if not (_isdigits(b) and len(b) == 11):
        return False
    if b[:4] == '0000':  # 7-digit postgiro style accounts use a Luhn check
        return _luhn_ok(b[4:])
    weights = (5, 4, 3, 2, 7, 6, 5, 4, 3, 2)
    r = (11 - sum(w * int(d) for w, d in zip(weights, b[:10])) % 11) % 11
    return r != 10 and str(r) == b[10]


def _me_bban_ok(b):      # Montenegrin account: ISO 7064 MOD 97-10 over the 18 digits
    return _isdigits(b) and len(b) == 18 and int(b) % 97 == 1


def ref_iban(s, t):
    """ISO 13616: country code with a registered BBAN structure, two check DIGITS in 02..98 such that the rotated,
    letter-expanded number is 1 modulo 97; where the country prescribes check digits inside the BBAN (BE, ES, NO, ME)
    those hold too."""
    if len(s) < 5:
        return None, 'length'
    if any(c not in ALNUM for c in s):
        return None, 'alphabet'
    cc = s[:2]
    if cc not in t['iban_structures']:
        return None, 'country'
    if not _isdigits(s[2:4]):
        return None, 'check-digits-not-digits'
    rx = _struct_regex(t['iban_structures'][cc])
    if rx is None or not rx.match(s[4:]):
        return None, 'structure'
    if _mod97(s[4:] + s[:4]) != 1:
        return None, 'checksum'
    if not (2 <= int(s[2:4]) <= 98):
        return None, 'check-digits-range'
    national = {'BE': _be_bban_ok, 'ES': _es_bban_ok, 'NO': _no_bban_ok, 'ME': _me_bban_ok}.get(cc)
    if national and not national(s[4:]):
        return None, 'national-check'
    if cc == 'BE' and 'be_bank_ranges' in t:
        # the first three digits are a bank code from the National Bank's list (shipped as be/banks.dat)
        if not any(lo <= s[4:4 + len(lo)] <= hi for lo, hi in t['be_bank_ranges']):
            return None, 'bank-code-not-registered'
    return s, None


def ref_imei(s, t):
    """3GPP TS 23.003: IMEI = 14 digits + Luhn check digit; the check digit is optional in transmission (14 digits);
    IMEISV = 16 digits without check digit."""
    if not _isdigits(s):
        return None, 'alphabet'
    if len(s) in (14, 16):
        return s, None
    if len(s) == 15:
        return (s, None) if _luhn_ok(s) else (None, 'checksum')
    return None, 'length'


def ref_iso11649(s, t):
    """ISO 11649: 'RF', two check digits, a reference of 1..21 alphanumeric characters; MOD 97-10."""
    if not (5 <= len(s) <= 25):
        return None, 'length'
    if s[:2] != 'RF':
        return None, 'prefix'
    if not _isdigits(s[2:4]):
        return None, 'check-digits-not-digits'
    if any(c not in ALNUM for c in s[4:]):
        return None, 'alphabet'
    if _mod97(s[4:] + s[:4]) != 1:
        return None, 'checksum'
    if not (2 <= int(s[2:4]) <= 98):
        return None, 'check-digits-range'
    return s, None


def ref_isni(s, t):
    """ISO 27729: 15 digits and a check character, ISO 7064 MOD 11-2."""
    if len(s) != 16:
        return None, 'length'
    if not _isdigits(s[:15]) or s[15] not in DIGITS + 'X':
        return None, 'alphabet'
    r = 0
    for c in s[:15]:
        r = (r + int(c)) * 2 % 11
    check = (12 - r) % 11
    return (s, None) if ('X' if check == 10 else str(check)) == s[15] else (None, 'checksum')


def ref_lei(s, t):
    """ISO 17442: 18 alphanumeric characters and two check digits, MOD 97-10."""
    if len(s) != 20:
        return None, 'length'
    if any(c not in ALNUM for c in s[:18]):
        return None, 'alphabet'
    if not _isdigits(s[18:]):
        return None, 'check-digits-not-digits'
    if _mod97(s) != 1:
        return None, 'checksum'
    if not (2 <= int(s[18:]) <= 98):
        return None, 'check-digits-range'
    return s, None


def ref_grid(s, t):
    """GRid standard v2.1: 18 alphanumeric characters (A1 + issuer + release + check), ISO 7064 MOD 37,36."""
    if len(s) != 18:
        return None, 'length'
    if any(c not in ALNUM for c in s):
        return None, 'alphabet'
    p = 36
    for c in s[:-1]:
        p = (p + ALNUM.index(c)) % 36 or 36
        p = p * 2 % 37
    return (s, None) if (p + ALNUM.index(s[-1])) % 36 == 1 else (None, 'checksum')


def ref_cusip(s, t):
    """ANSI X9.6: 8 characters over 0-9 A-Z * @ # and a check digit ('modulus 10 double add double', every second
    character doubled, digits of the products added)."""
    alpha = ALNUM + '*@#'
    if any(c not in alpha for c in s):
        return None, 'alphabet'
    if len(s) != 9:
        return None, 'length'
    total = 0
    for i, c in enumerate(s[:8]):
        v = alpha.index(c)
        if i % 2 == 1:
            v *= 2
        total += v // 10 + v % 10
    return (s, None) if s[8] in DIGITS and (10 - total % 10) % 10 == int(s[8]) else (None, 'checksum')


def ref_sedol(s, t):
    """LSE SEDOL Masterfile: 7 characters, no vowels; six weighted 1,3,1,7,3,9 and a check digit; codes issued before
    2004 are numeric, new codes start with a letter."""
    alpha = '0123456789BCDFGHJKLMNPQRSTVWXYZ'
    if any(c not in alpha for c in s):
        return None, 'alphabet'
    if len(s) != 7:
        return None, 'length'
    if s[0] in DIGITS and not _isdigits(s):
        return None, 'old-style-not-numeric'
    val = lambda c: int(c) if c in DIGITS else 10 + UPPER.index(c)  # noqa: E731
    total = sum(w * val(c) for w, c in zip((1, 3, 1, 7, 3, 9), s[:6]))
    return (s, None) if s[6] in DIGITS and (10 - total % 10) % 10 == int(s[6]) else (None, 'checksum')


def ref_figi(s, t):
    """OMG FIGI specification: 12 characters, consonants and digits only; positions 1-2 consonants and not BS, BM, GG,
    GB, GH, KY, VG; position 3 'G'; positions 4-11 alphanumeric without vowels; position 12 a check digit (every second
    character value doubled, digits added, modulus 10)."""
    alpha = '0123456789BCDFGHJKLMNPQRSTVWXYZ'
    if any(c not in alpha for c in s):
        return None, 'alphabet'
    if len(s) != 12:
        return None, 'length'
    if s[0] in DIGITS or s[1] in DIGITS:
        return None, 'prefix-not-letters'
    if s[:2] in ('BS', 'BM', 'GG', 'GB', 'GH', 'KY', 'VG'):
        return None, 'prefix-forbidden'
    if s[2] != 'G':
        return None, 'third-not-G'
    total = 0
    for i, c in enumerate(s[:11]):
        v = ALNUM.index(c) * (2 if i % 2 == 1 else 1)
        total += v // 10 + v % 10
    return (s, None) if s[11] in DIGITS and (10 - total % 10) % 10 == int(s[11]) else (None, 'checksum')


def ref_imo(s, t):
    """IMO resolution A.1078(28): seven digits, the last is the unit digit of sum(d_i * (7 - i)) over the first six."""
    if not _isdigits(s):
        return None, 'alphabet'
    if len(s) != 7:
        return None, 'length'
    total = sum(int(c) * (7 - i) for i, c in enumerate(s[:6]))
    return (s, None) if total % 10 == int(s[6]) else (None, 'checksum')


def ref_casrn(s, t):
    """CAS registry number: 2-7 digits, hyphen, 2 digits, hyphen, check digit; no leading zero; check = sum of digits
    times their position from the right (excluding the check digit) modulo 10."""
    m = re.match(r'^([1-9][0-9]{1,6})-([0-9]{2})-([0-9])$', s)
    if not m:
        return None, 'format'
    body = m.group(1) + m.group(2)
    total = sum((i + 1) * int(c) for i, c in enumerate(reversed(body)))
    return (s, None) if total % 10 == int(m.group(3)) else (None, 'checksum')


def ref_bic(s, t):
    """ISO 9362: 4 letters institution, 2 letters country, 2 alphanumeric location, optional 3 alphanumeric branch."""
    if len(s) not in (8, 11):
        return None, 'length'
    if any(c not in UPPER for c in s[:6]) or any(c not in ALNUM for c in s[6:]):
        return None, 'alphabet'
    return s, None


def ref_isrc(s, t):
    """ISO 3901: 2-letter prefix from the registered list, 3 alphanumeric registrant, 2 digits year, 5 digits."""
    if len(s) != 12:
        return None, 'length'
    if any(c not in UPPER for c in s[:2]) or any(c not in ALNUM for c in s[2:5]) or not _isdigits(s[5:]):
        return None, 'alphabet'
    if s[:2] not in t['isrc_countries']:
        return None, 'country'
    return s, None


_B58 = '123456789ABCDEFGHJKLMNPQRSTUVWXYZabcdefghijkmnopqrstuvwxyz'
_B32 = 'qpzry9x8gf2tvdw0s3jn54khce6mua7l'


def _bech32_polymod(values):
    gen = (0x3b6a57b2, 0x26508e6d, 0x1ea119fa, 0x3d4233dd, 0x2a1462b3)
    chk = 1
    for v in values:
        b = chk >> 25
        chk = (chk & 0x1ffffff) << 5 ^ v
        for i in range(5):
            if (b >> i) & 1:
                chk ^= gen[i]
    return chk


def ref_bitcoin(s, t):
    """Base58Check P2PKH/P2SH addresses (version byte 0x00 / 0x05, 21 bytes + 4 byte double SHA-256 checksum) and
    BIP-173 segwit addresses (hrp 'bc', no mixed case, checksum, witness version 0..16, program 2..40 bytes, version 0
    programs of 20 or 32 bytes, padding of at most 4 zero bits)."""
    if s[:1] in ('1', '3'):
        if any(c not in _B58 for c in s):
            return None, 'alphabet'
        n = 0
        for c in s:
            n = n * 58 + _B58.index(c)
        raw = n.to_bytes((n.bit_length() + 7) // 8, 'big')
        raw = b'\x00' * (len(s) - len(s.lstrip('1'))) + raw
        if len(raw) != 25:
            return None, 'length'
        if hashlib.sha256(hashlib.sha256(raw[:21]).digest()).digest()[:4] != raw[21:]:
            return None, 'checksum'
        if raw[0] not in (0, 5):
            return None, 'version'
        return s, None
    low = s.lower()
    if low[:3] == 'bc1':
        if s != low and s != s.upper():
            return None, 'mixed-case'
        if not (11 <= len(s) <= 90):
            return None, 'length'
        if any(c not in _B32 for c in low[3:]):
            return None, 'alphabet'
        data = [_B32.index(c) for c in low[3:]]
        hrp = [ord(c) >> 5 for c in 'bc'] + [0] + [ord(c) & 31 for c in 'bc']
        if _bech32_polymod(hrp + data) != 1:
            return None, 'checksum'
        version, prog5 = data[0], data[1:-6]
        acc = bits = 0
        out = bytearray()
        for v in prog5:
            acc = (acc << 5) | v
            bits += 5
            while bits >= 8:
                bits -= 8
                out.append((acc >> bits) & 0xff)
        if bits >= 5 or (acc & ((1 << bits) - 1)):
            return None, 'padding'
        if version > 16:
            return None, 'witness-version'
        if not (2 <= len(out) <= 40):
            return None, 'program-length'
        if version == 0 and len(out) not in (20, 32):
            return None, 'program-length'
        return low, None
    return None, 'prefix'


REFS = {
    'isbn': ref_isbn, 'ean': ref_ean, 'issn': ref_issn, 'ismn': ref_ismn, 'isin': ref_isin, 'iban': ref_iban,
    'imei': ref_imei, 'iso11649': ref_iso11649, 'isni': ref_isni, 'lei': ref_lei, 'grid': ref_grid, 'cusip': ref_cusip,
    'gb.sedol': ref_sedol, 'figi': ref_figi, 'imo': ref_imo, 'casrn': ref_casrn, 'bic': ref_bic, 'isrc': ref_isrc,
    'bitcoin': ref_bitcoin,
}

ALPHABETS = {
    'isbn': DIGITS + 'X', 'ean': DIGITS, 'issn': DIGITS + 'X', 'ismn': DIGITS + 'M', 'isin': ALNUM, 'iban': ALNUM,
    'imei': DIGITS, 'iso11649': ALNUM, 'isni': DIGITS + 'X', 'lei': ALNUM, 'grid': ALNUM, 'cusip': ALNUM + '*@#',
    'gb.sedol': ALNUM, 'figi': ALNUM, 'imo': DIGITS, 'casrn': DIGITS + '-', 'bic': ALNUM, 'isrc': ALNUM,
    'bitcoin': _B58 + '0OIl',
}
MAXLEN = {'isbn': 13, 'ean': 14, 'issn': 8, 'ismn': 13, 'isin': 12, 'iban': 34, 'imei': 16, 'iso11649': 25, 'isni': 16,
          'lei': 20, 'grid': 18, 'cusip': 9, 'gb.sedol': 7, 'figi': 12, 'imo': 7, 'casrn': 12, 'bic': 11, 'isrc': 12, 'bitcoin': 62}


# ---------------------------------------------------------------------------
# human-readable forms: what the standards' own display conventions allow around the electronic form.
# (separators removed anywhere, optional label in front).  Letter case is folded except for bitcoin.

PRESENTATION = {
    'isbn': (' -', ()), 'ean': (' -', ()), 'issn': (' -', ()), 'ismn': (' -', ()), 'isin': (' ', ()), 'iban': (' ', ()),
    'imei': (' -', ()), 'iso11649': (' ', ()), 'isni': (' -', ()), 'lei': (' ', ()), 'grid': (' -', ('GRID:',)),
    'cusip': (' ', ()), 'gb.sedol': (' ', ()), 'figi': (' ', ()), 'imo': (' ', ('IMO',)), 'casrn': (' ', ()), 'bic': (' ', ()),
    'isrc': (' -', ()), 'bitcoin': (' ', ()),
}


def ref_clean(name, s):
    """Electronic form of a human-readable spelling according to the standard's display conventions."""
    seps, labels = PRESENTATION[name]
    out = ''.join(c for c in s if c not in seps)
    if name != 'bitcoin':
        out = out.upper()
    elif out[:3].lower() == 'bc1' and (out == out.lower() or out == out.upper()):
        out = out.lower()
    for lab in labels:
        if out.startswith(lab):
            out = out[len(lab):]
            break
    if name == 'casrn' and '-' not in out and len(out) >= 4:
        out = out[:-3] + '-' + out[-3:-1] + '-' + out[-1]
    return out


def bech32_encode(version, prog5, const=1):
    """A bc1 address with a correct checksum over arbitrary 5-bit data (may violate the other rules)."""
    data = [version] + list(prog5)
    hrp = [ord(c) >> 5 for c in 'bc'] + [0] + [ord(c) & 31 for c in 'bc']
    pm = _bech32_polymod(hrp + data + [0] * 6) ^ const
    chk = [(pm >> 5 * (5 - i)) & 31 for i in range(6)]
    return 'bc1' + ''.join(_B32[v] for v in data + chk)


def base58check_encode(payload):
    raw = payload + hashlib.sha256(hashlib.sha256(payload).digest()).digest()[:4]
    n = int.from_bytes(raw, 'big')
    out = ''
    while n:
        n, r = divmod(n, 58)
        out = _B58[r] + out
    return '1' * (len(raw) - len(raw.lstrip(b'\x00'))) + out
