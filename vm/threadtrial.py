"""One cold-start thread trial (DESIGN 3, C13 (4)).  Run as a fresh process:
    python -B vm/threadtrial.py spec.json
N threads are released from a barrier into first uses of the library, with yield injection at statement starts of
stdnum code (sys.monitoring LINE events) and a 1 us switch interval.  Prints one JSON document.
"""
import json
import os
import random
import sys
import threading
import time

VERIF = os.path.dirname(os.path.dirname(os.path.abspath(__file__)))
sys.path.insert(0, VERIF)


def main():
    spec = json.load(open(sys.argv[1]))
    from vm import common as C
    from vm import calls
    C.setup_repo()
    from vm import c13  # noqa: F401  (installs the extended run_call used by the specs)
    root = os.path.join(C.REPO, 'stdnum') + os.sep
    rng = random.Random(spec['seed'])
    yieldp = spec.get('yieldp', 0.02)
    stats = {'line_events': 0, 'yields': 0}
    opens = []      # (thread id, path)
    lock = threading.Lock()

    def audit(event, args):
        if event == 'open' and isinstance(args[0], str) and args[0].endswith('.dat'):
            with lock:
                opens.append((threading.get_ident(), os.path.basename(args[0])))
    sys.addaudithook(audit)

    mon = sys.monitoring
    TOOL = 4
    mon.use_tool_id(TOOL, 'verif-yield')
    local = threading.local()
    hits = {}
    budget = spec.get('line_budget', 300)

    def on_line(code, lineno):
        if not code.co_filename.startswith(root):
            return mon.DISABLE
        stats['line_events'] += 1
        key = (code, lineno)
        c = hits.get(key, 0) + 1
        hits[key] = c
        if c > budget:
            return mon.DISABLE     # a hot loop: this location has had its share of injected yields
        r = getattr(local, 'rng', None)
        if r is None:
            r = local.rng = random.Random('%s:%s' % (spec['seed'], threading.get_ident()))
        x = r.random()
        if x < yieldp:
            stats['yields'] += 1
            time.sleep(0 if x < yieldp * 0.8 else 0.0005)
    mon.register_callback(TOOL, mon.events.LINE, on_line)
    sys.setswitchinterval(1e-6)

    n = spec['nthreads']
    # like a program's own import statements: the modules the threads call directly are imported up front; what
    # the library loads lazily by itself (registries, country packages behind get_cc_module, caches) stays cold
    for plan in spec['plans']:
        for s in plan:
            if s['module'] != 'util':
                C.get_module(s['module'])
    if spec.get('preimport_country_modules'):
        # the interpreter's own import machinery is kept out of these trials (two threads importing a package and its
        # submodule at once make CPython hand out half-initialised modules - recorded separately from the trial
        # family that walks the package tree): the country packages' vat / iban modules are imported, the library's
        # own lazy state (_country_modules, registries) stays cold
        import importlib
        base = os.path.join(C.REPO, 'stdnum')
        for cc in sorted(os.listdir(base)):
            for sub in ('vat', 'iban'):
                if os.path.exists(os.path.join(base, cc, sub + '.py')):
                    try:
                        importlib.import_module('stdnum.%s.%s' % (cc, sub))
                    except Exception:  # noqa: B902
                        pass
    barrier = threading.Barrier(n)
    results = [None] * n
    errors = []
    plans = spec['plans']     # per thread: list of call specs

    def run(i):
        out = []
        barrier.wait()
        try:
            for s in plans[i]:
                o, _raw = calls.run_call(s)
                out.append([s['id'], o])
            results[i] = out
        except BaseException as e:  # noqa: B902
            errors.append('thread %d: %r' % (i, e))
    threads = [threading.Thread(target=run, args=(i,)) for i in range(n)]
    mon.set_events(TOOL, mon.events.LINE)
    for t in threads:
        t.start()
    for t in threads:
        t.join(120)
    mon.set_events(TOOL, 0)
    hung = [i for i, t in enumerate(threads) if t.is_alive()]
    by_file = {}
    for tid, path in opens:
        by_file.setdefault(path, set()).add(tid)
    # cache invariants after the storm
    inv = []
    try:
        from vm import c13
        inv = c13.cache_invariant_violations()
    except Exception as e:  # noqa: B902
        inv = ['invariant check failed: %r' % e]
    print(json.dumps({'results': results, 'hung': hung, 'stats': stats, 'harness_errors': errors,
                      'registry_files_opened_by_n_threads': {k: len(v) for k, v in by_file.items()},
                      'invariants': inv}))
    sys.stdout.flush()
    os._exit(0)


if __name__ == '__main__':
    main()
