"""Input generators shared by the boundary monitors (DESIGN 2.4)."""

from vm import common as C

_fd = None


def fdigits():
    global _fd
    if _fd is None:
        _fd = C.foreign_digits()
    return _fd


def clean_table():
    from stdnum import util
    return dict(util._char_map)


def positions(n, tier, rng, extra=3):
    """Insertion positions 0..n: all for thorough, a structured sample for quick."""
    if tier == 'thorough' or n <= 6:
        return list(range(n + 1))
    ps = {0, 1, 2, n // 2, n - 2, n - 1, n}
    while len(ps) < min(n + 1, 7 + extra):
        ps.add(rng.randrange(n + 1))
    return sorted(ps)


HOSTILE_INSERT = (
    [('newline', c) for c in C.NEWLINE_FAMILY] +
    [('separator', c) for c in C.ASCII_SEPARATORS] +
    [('control', c) for c in C.CONTROL] +
    [('space', c) for c in C.SPACES] +
    [('case-expanding', c) for c in C.CASE_EXPANDING] +
    [('foreign-letter', c) for c in C.LETTERS_FOREIGN] +
    [('surrogate', c) for c in C.SURROGATES] +
    [('combining', c) for c in C.COMBINING] +
    [('symbol', c) for c in C.SYMBOLS] +
    [('foreign-digit', c) for c in ['٣', '३', '²', '①', 'Ⅷ', '\U0001d7d7', '፩', '\U00010a40', '５', '〇']] +
    [('zero-width', c) for c in ['\u200b', '\u200d', '\ufeff', '\u2060']]
)


def hostile_strings(numbers, tier, rng):
    """Yield (cls, posclass, string) built from valid numbers."""
    fd = fdigits()
    table = clean_table()
    lookalikes = sorted(table)
    for v in numbers:
        n = len(v)
        yield ('plain', 'whole', v)
        yield ('plain', 'lower', v.lower())
        yield ('plain', 'upper', v.upper())
        pool = HOSTILE_INSERT if tier == 'thorough' else rng.sample(HOSTILE_INSERT, 30) + \
            [('newline', '\n'), ('newline', '\x1c'), ('newline', '\r')]
        for cls, ch in pool:
            for p in positions(n, tier, rng, extra=0 if tier == 'quick' else 3):
                pc = 'start' if p == 0 else 'end' if p == n else 'before-last' if p == n - 1 else 'inner'
                yield (cls + '-insert', pc, v[:p] + ch + v[p:])
            # substitution
            for p in (range(n) if tier == 'thorough' else rng.sample(range(n), min(n, 3))):
                pc = 'first' if p == 0 else 'last' if p == n - 1 else 'inner'
                yield (cls + '-subst', pc, v[:p] + ch + v[p + 1:])
        # look-alike table entries
        for ch in (lookalikes if tier == 'thorough' else rng.sample(lookalikes, 12)):
            p = rng.randrange(n + 1)
            yield ('lookalike-insert', 'any', v[:p] + ch + v[p:])
        # foreign same-valued digits at digit positions
        dpos = [i for i, c in enumerate(v) if c in '0123456789']
        for p in (dpos if tier == 'thorough' else rng.sample(dpos, min(len(dpos), 4))):
            alts = fd.get(int(v[p]), [])
            for ch in (rng.sample(alts, min(len(alts), 12 if tier == 'thorough' else 3))):
                pc = 'first' if p == 0 else 'last' if p == n - 1 else 'inner'
                yield ('foreign-digit-subst', pc, v[:p] + ch + v[p + 1:])
        if dpos:
            # all digits foreign (one script)
            for base in (0x0660, 0x0966, 0xFF10, 0x1D7CE):
                yield ('foreign-digit-all', 'all', ''.join(chr(base + int(c)) if c in '0123456789' else c for c in v))
        # case-expanding letters at letter positions
        lpos = [i for i, c in enumerate(v) if c.isalpha()]
        for p in (lpos if tier == 'thorough' else rng.sample(lpos, min(len(lpos), 3))):
            for ch in C.CASE_EXPANDING + C.LETTERS_FOREIGN + ['ñ', 'ç', 'Ø']:
                yield ('foreign-letter-subst', 'letterpos', v[:p] + ch + v[p + 1:])
        # two coordinated hostile characters
        for _ in range(6 if tier == 'quick' else 40):
            (c1, a), (c2, b) = rng.choice(HOSTILE_INSERT), rng.choice(HOSTILE_INSERT)
            p, q = sorted((rng.randrange(n + 1), rng.randrange(n + 1)))
            yield ('double-insert', 'any', v[:p] + a + v[p:q] + b + v[q:])
        # truncations / extensions
        for k in range(1, min(n, 4)):
            yield ('truncated', 'tail', v[:-k])
            yield ('truncated', 'head', v[k:])
        for ch in '0A9Z':
            yield ('extended', 'tail', v + ch)
            yield ('extended', 'head', ch + v)
        # one character changed to another of the same class
        for p in (range(n) if tier == 'thorough' else rng.sample(range(n), min(n, 4))):
            c = v[p]
            if c.isdigit():
                yield ('digit-subst', 'any', v[:p] + str((int(c) + rng.randrange(1, 10)) % 10) + v[p + 1:])
                yield ('digit-to-letter', 'any', v[:p] + rng.choice('ABKXZ') + v[p + 1:])
            elif c.isalpha():
                yield ('letter-subst', 'any', v[:p] + rng.choice('ABCDEFGHIJKLMNOPQRSTUVWXYZ') + v[p + 1:])
                yield ('letter-to-digit', 'any', v[:p] + rng.choice('0123456789') + v[p + 1:])


def size_strings(numbers, tier):
    yield ('size', 'empty', '')
    for ch in '0 A-\n٣':
        yield ('size', 'one', ch)
    sizes = (100, 5000) if tier == 'quick' else (100, 4299, 4301, 5000, 100000)
    for size in sizes:
        yield ('overlong-digits', str(size), '1' * size)
        yield ('overlong-digits', str(size), '0' * size)
        yield ('overlong-letters', str(size), 'A' * size)
        yield ('overlong-mixed', str(size), ('A1' * size)[:size])
        yield ('overlong-spaces', str(size), ' ' * size)
    for v in numbers[:3]:
        for size in sizes[:3]:
            yield ('overlong-valid-prefix', str(size), v + '0' * size)
            yield ('overlong-valid-suffix', str(size), '0' * size + v)
            yield ('overlong-valid-repeated', str(size), (v * (size // max(1, len(v)) + 1))[:size])
            if len(v) > 4:
                yield ('overlong-valid-middle', str(size), v[:2] + '0' * size + v[2:])
                yield ('overlong-valid-middle', str(size), v[:-2] + '7' * size + v[-2:])


# ---------------------------------------------------------------------------
# presentation decoration (accepted odd presentations)

DECOR_POOL = (
    list(" -./:,*'") +
    ['\t', '\n', '\r', '\x0b', '\x0c', '\x1c', '\x1d', '\x1e', '\x1f', '\x85'] +
    [' ', '　', ' ', ' ', '‐', '‑', '–', '—', '−',
     '．', '／', '：', '，', '’', '․', '⁄', '﹣', '－', '­', '᠎',
     '\u200b', '\u200c', '\u200d', '\ufeff', '\u2060']
)


def prefixes_for(modname):
    """Country / label prefixes a module may accept (whether it does is observed)."""
    out = []
    parts = modname.split('.')
    if len(parts) == 2 and len(parts[0].rstrip('_')) == 2:
        cc = parts[0].rstrip('_').upper()
        out += [cc, cc.lower(), cc + ' ', cc + '-', cc + '\n', cc.lower() + ' ']
        if cc == 'GR':
            out += ['EL', 'el', 'EL ']
    last = parts[-1].upper()
    out += [last, last + ' ', last + ':', last + ': ', last.lower() + ' ', last + '-']
    out += ['URN:' + last + ':', 'urn:' + last.lower() + ':']
    return out


_SCRIPT_ZEROS = []


def script_zeros():
    """Code points of the digit zero of every script whose ten decimal digits are contiguous."""
    if not _SCRIPT_ZEROS:
        import unicodedata
        for cp in range(0x80, 0x110000):
            c = chr(cp)
            if unicodedata.category(c) == 'Nd' and unicodedata.decimal(c, None) == 0:
                if all(unicodedata.decimal(chr(cp + i), None) == i for i in range(10)):
                    _SCRIPT_ZEROS.append(cp)
    return _SCRIPT_ZEROS


def decorations(v, modname, tier, rng, pool=None):
    """Yield (cls, string) presentation variants of v."""
    pool = pool or DECOR_POOL
    n = len(v)
    yield ('identity', v)
    yield ('lower', v.lower())
    yield ('swapcase', v.swapcase())
    if any(c.isalpha() for c in v):
        yield ('mixedcase', v.lower().capitalize())
        yield ('mixedcase', ''.join(c.upper() if i % 2 else c.lower() for i, c in enumerate(v)))
        for _ in range(3):
            yield ('mixedcase', ''.join(c.upper() if rng.random() < 0.5 else c.lower() for c in v))
    if v[:1].isdigit():
        for k in (1, 2, 3, 4, 5, 8):
            yield ('zeropad', '0' * k + v)
        if len(v) > 4 and v.isdigit():
            for k in (1, 2, 4):
                yield ('zeropad-sep', '0' * k + '.' + v)
                yield ('zeropad-sep', '0' * k + ' ' + v)
    for ch in (' ', '\t', '\n', '\r\n', ' ', '\x1c'):
        yield ('surround', ch + v + ch)
        yield ('surround', v + ch)
        yield ('surround', ch + v)
    # two characters at one end: a separator shielding a blank from strip(), heavy padding (a length test on the raw text)
    for a in ('\n', ' ', '\t', '\x1c', '\xa0'):
        for b in ('-', '_', '.', '/', ' '):
            yield ('surround2', v + a + b)
            yield ('surround2', b + a + v)
            if len(v) > 3:
                yield ('surround2', v[:-1] + a + b)     # the blank in the place of the last character
    for padch in (' ', '-', '.'):
        yield ('padded', padch * 70 + v)
        yield ('padded', v + padch * 70)
        yield ('padded', (padch * 6).join(v))
    use = pool if tier == 'thorough' else rng.sample(pool, min(14, len(pool))) + [' ', '-', '.', '\n', '/']
    for ch in use:
        for p in positions(n, tier, rng, extra=1):
            yield ('insert', v[:p] + ch + v[p:])
        # every gap
        yield ('everygap', ch.join(v))
    for _ in range(10 if tier == 'quick' else 60):
        a, b = rng.choice(pool), rng.choice(pool)
        p, q = sorted((rng.randrange(n + 1), rng.randrange(n + 1)))
        yield ('double', v[:p] + a + v[p:q] + b + v[q:])
    if any(c.isdigit() for c in v):
        # the whole number typed with the digits of another script (every script that has decimal digits)
        for base in script_zeros():
            yield ('transliterated', ''.join(chr(base + int(c)) if c in '0123456789' else c for c in v))
    # the characters regrouped with another separator (d050.9984.a2a0, 12-34-56 ...)
    bare = ''.join(c for c in v if c.isalnum())
    for g in (2, 3, 4):
        for sep in ('.', '-', ' ', ':') if tier == 'thorough' else (rng.choice('.-: '),):
            if len(bare) > g:
                yield ('regroup', sep.join(bare[i:i + g] for i in range(0, len(bare), g)))
    for pre in prefixes_for(modname):
        yield ('prefix', pre + v)
        if v[:1].isdigit() and pre.strip():
            for k in (1, 2):
                yield ('prefix-zeropad', pre + '0' * k + v)
                yield ('prefix-zeropad', pre.strip() + '.' + '0' * k + v)
        for ch in (' ', '\n', '-', '.', '\x1c', ' '):
            yield ('prefix-sep', pre + ch + v)
            yield ('prefix-sep', ch + pre + v)
            yield ('prefix-sep', pre + v + ch)
        if v.upper().startswith(pre.strip().upper()) and pre.strip():
            k = len(pre.strip())
            for ch in (' ', '\n', '-', '.', '\x1c'):
                yield ('after-own-prefix', v[:k] + ch + v[k:])
