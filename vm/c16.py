"""C16 - GS1-128 decoding and encoding are mutually consistent (DESIGN 3, C16).

Reference-model monitor working in the decoded domain: element strings are generated from an independent
reading of gs1_ai.dat; the oracle is the round trip through the real info()/encode()/validate().
"""

import os

from vm import common as C
from vm import gs1gen

META = {
    'level': 'exploration',
    'rule': ('element strings of 1..5 distinct registered AIs with values fitting their declared formats (independent '
             'format reader; boundary lengths min/max and random; dates incl. day 00; decimals with 0..9 implied places), '
             'fixed-length before variable-length and shuffled orders, separator in {none, GS, ~, |, [FNC1]} and '
             'parentheses on/off in the input and in encode(). Oracle: info(validate(x)) == info(x); validate(validate(x)) '
             '== validate(x); info(encode(info(x), s2, par), s2) == info(x). distinct_nontrivial = distinct (AI format, '
             'type, separator, parentheses, last / not-last, length class) cells that decoded successfully'),
    'assumptions': ['values avoid parentheses and the separator characters themselves (compact() strips parentheses)'],
}

SEPS = ['', '\x1d', '~', '|', '[FNC1]']


def shards(tier):
    n = 16 if tier == 'quick' else 64
    return [{'name': 's%02d' % i, 'part': i, 'parts': n} for i in range(n)]


def add(viols, sig, what, witness):
    if sig in viols:
        viols[sig]['count'] += 1
    else:
        viols[sig] = {'sig': sig, 'what': what, 'count': 1, 'witness': witness}


def build(items, sep, paren, rng):
    """items: [(ai, props, raw)] in the order to emit.  Returns the element string or None if it cannot be
    expressed (variable-length value not last, no separator, not at maximum length and not paddable)."""
    out = ''
    n = len(items)
    for i, (ai, props, raw) in enumerate(items):
        last = i == n - 1
        head = '(%s)' % ai if paren else ai
        variable = bool(props.get('fnc1'))
        if variable and not last:
            if sep:
                out += head + raw + sep
                continue
            # no separator: the value must fill its maximum length
            mx = max_len(props)
            if mx is None:
                return None
            if len(raw) < mx:
                typ = props.get('type', 'str')
                if typ in ('int', 'decimal'):
                    raw = raw.rjust(mx, '0')
                elif typ == 'str':
                    raw = raw.ljust(mx)
                else:
                    return None
            out += head + raw
        else:
            out += head + raw
            if variable and sep and not last:
                out += sep
    return out


def max_len(props):
    try:
        comps = gs1gen.parse_format(props['format'])
    except gs1gen.UnsupportedFormat:
        return None
    n = sum(c[2] for c in comps)
    if props.get('type') == 'decimal':
        n += 1
    return n


def fmt_class(props):
    return '%s/%s' % (props['format'], props.get('type', 'str'))


def one_case(gs1, ais, rng, tier, viols, cells, counters, forced=None):
    k = rng.choice((1, 1, 2, 2, 3, 4, 5))
    chosen = rng.sample(ais, min(k, len(ais)))
    if forced is not None:
        chosen = [forced] + [c for c in chosen if c[0] != forced[0]][:k - 1]
    sep = rng.choice(SEPS)
    paren = rng.random() < 0.4
    forbid = '()' + ''.join(set(''.join(SEPS)))
    items = []
    for ai, props in chosen:
        shape = rng.choice(('min', 'max', 'random', 'random'))
        try:
            raw = gs1gen.raw_value(props['format'], props.get('type', 'str'), rng, shape, forbid=forbid)
        except gs1gen.UnsupportedFormat:
            return 0
        if ai in ('01', '02'):
            from stdnum import ean
            raw = raw[:13] + ean.calc_check_digit(raw[:13])
        if ai == '8007':
            raw = rng.choice(['NL91ABNA0417164300', 'GB82WEST12345698765432', 'BE71096123456769', 'nl91abna0417164300', 'Gb82West12345698765432',
                              'NO0500001234566', 'ES7921000813610123456789', 'ME25505000012345678951', 'NO9386011117947'])
        if props.get('type', 'str') == 'str' and (raw != raw.strip()):
            raw = raw.strip() or 'A'
        items.append((ai, props, raw))
    order = rng.choice(('canonical', 'shuffled'))
    if order == 'canonical':
        items.sort(key=lambda t: (bool(t[1].get('fnc1')), t[0]))
    else:
        rng.shuffle(items)
    local = {}
    evals = evaluate(gs1, items, sep, paren, rng, tier, local, cells, counters)
    for sig, v in local.items():
        if v['witness'].get('shrunk'):
            if sig in viols:
                viols[sig]['count'] += 1
            else:
                viols[sig] = dict(v, count=1)
            continue
        # shrink: drop items while the same clause still fails, so that the signature names the culprit formats
        clause = sig.split('|')[1]
        cur = list(items)
        cur_paren = paren
        changed = True
        while changed and len(cur) > 1:
            changed = False
            for i in range(len(cur)):
                cand = cur[:i] + cur[i + 1:]
                l2 = {}
                evaluate(gs1, cand, sep, cur_paren, rng, tier, l2, set(), {'decoded': 0})
                if any(s2.split('|')[1] == clause for s2 in l2):
                    cur = cand
                    changed = True
                    break
        if cur_paren:
            l2 = {}
            evaluate(gs1, cur, sep, False, rng, tier, l2, set(), {'decoded': 0})
            if any(s2.split('|')[1] == clause for s2 in l2):
                cur_paren = False
        l3 = {}
        evaluate(gs1, cur, sep, cur_paren, rng, tier, l3, set(), {'decoded': 0})
        keep = [vv for ss, vv in l3.items() if ss.split('|')[1] == clause]
        vv = keep[0] if keep else v
        names = []
        for i, (a, p, r) in enumerate(cur):
            names.append(fmt_class(p) + ('' if i == len(cur) - 1 or not p.get('fnc1') else '[notlast]'))
        newsig = 'C16|%s|%s|%s%s' % (clause, '+'.join(sorted(names)), 'sep' if sep else 'nosep', '|paren' if cur_paren else '')
        vv = dict(vv, sig=newsig)
        if newsig in viols:
            viols[newsig]['count'] += 1
        else:
            viols[newsig] = dict(vv, count=1)
    return evals


def _how(before, after):
    """For decimal values: how the value changed (keeps the recorded truncation apart from any other change)."""
    import decimal
    if isinstance(before, decimal.Decimal) and isinstance(after, decimal.Decimal):
        sb, sa = str(before), str(after)
        if sb != sa and sb.startswith(sa) and '.' in sa:
            return '|fraction-digits-lost'
        return '|value-differs'
    return ''


def culprit_tag(items, d, result, s2):
    """(tag, attributed?) naming the first AI whose value is lost or changed when d is encoded with separator s2."""
    byai = {a: p for a, p, _r in items}
    varorder = [a for a in sorted(d) if byai.get(a, {}).get('fnc1')]
    padded = [a for a in varorder[:-1]] if not s2 else []
    ctx = 'sep' if s2 else 'nosep'
    if result[0] == 'ok' and isinstance(result[1], dict):
        cul = [a for a in sorted(set(d) | set(result[1])) if (a in d) != (a in result[1]) or d.get(a) != result[1].get(a)]
        # emission order of encode(): fixed-length first, then variable-length, each sorted
        order = [a for a in sorted(d) if a not in varorder] + varorder
        cul.sort(key=lambda a: order.index(a) if a in order else 999)
        if cul:
            a = cul[0]
            if a not in byai:
                return 'spurious-ai|' + ctx, True
            return '%s%s|%s%s' % (fmt_class(byai[a]), '[padded]' if a in padded else '', ctx, _how(d.get(a), result[1].get(a))), True
    elif padded:
        # decoding broke down: with no separator the padded (non-last variable-length) values are the suspects;
        # name those whose type is not a plain string first
        from stdnum import gs1_128 as gs1
        for a in padded:
            probe = {a: d[a], '99': 'A'}
            e = C.outcome(gs1.encode, probe, '')
            if e[0] != 'ok' or C.outcome(gs1.info, e[1], '') != ('ok', probe):
                return '%s[padded]|%s|undecodable' % (fmt_class(byai[a]), ctx), True
        return 'padded-combination|%s|undecodable' % ctx, True
    return None, False


def evaluate(gs1, items, sep, paren, rng, tier, viols, cells, counters):
    x = build(items, sep, paren, rng)
    if x is None:
        return 0
    evals = 1
    w = {'x': x, 'sep': sep, 'paren': paren, 'items': [[a, p['format'], p.get('type', 'str'), r] for a, p, r in items]}
    o_info = C.outcome(gs1.info, x, sep)
    classes = sorted({fmt_class(p) for _a, p, _r in items})
    notlast_var = sorted({fmt_class(p) for i, (_a, p, _r) in enumerate(items) if p.get('fnc1') and i < len(items) - 1})
    ctx = 'sep' if sep else 'nosep'

    def blame(default):
        # attribute to the first non-last variable-length format when there is no separator, else to all classes
        if not sep and notlast_var:
            return '+'.join(notlast_var[:2]) + '|notlast|nosep'
        return '+'.join(classes[:2]) + '|' + ctx

    if o_info[0] != 'ok':
        add(viols, 'C16|decode-fails|%s' % blame(''), 'info(%r, %r) fails (%s) for values fitting their formats %r' % (
            x, sep, o_info[1], w['items']), w)
        return evals
    d = o_info[1]
    if sorted(d) != sorted(a for a, _p, _r in items):
        add(viols, 'C16|decode-wrong-identifiers|%s' % blame(''), 'info(%r, %r) yields identifiers %r, built from %r' % (
            x, sep, sorted(d), [a for a, _p, _r in items]), w)
        return evals
    counters['decoded'] += 1
    if counters.get('_samples') is not None and len(counters['_samples']) < 2:
        counters['_samples'].append({'element_string': x, 'separator': sep, 'parentheses': paren, 'decoded': C.jsonable({k: str(v) for k, v in d.items()})})
    for i, (a, p, r) in enumerate(items):
        cells.add((fmt_class(p), ctx, paren, 'last' if i == len(items) - 1 else 'notlast', 'max' if len(r) == (max_len(p) or -1) else 'short'))
    # A / B: validate
    o_v = C.outcome(gs1.validate, x, sep)
    evals += 1
    if o_v[0] != 'ok':
        add(viols, 'C16|validate-rejects-decodable|%s' % blame(''), 'info(%r) works but validate raises %s' % (x, o_v[1]), w)
    else:
        v = o_v[1]
        o_iv = C.outcome(gs1.info, v, sep)
        evals += 1
        if o_iv != o_info:
            tagA, att = culprit_tag(items, d, o_iv, sep)
            w = dict(w)
            if att:
                w['shrunk'] = True
            else:
                tagA = blame('')
            add(viols, ('C16|roundtrip|%s' % tagA) if att else ('C16|A-validated-form-decodes-differently|%s' % tagA),
                'info(validate(x)) != info(x): x=%r sep=%r validate=%r; %r vs %r' % (x, sep, v, o_iv[1] if o_iv[0] == 'ok' else o_iv[1:3], d), w)
        o_vv = C.outcome(gs1.validate, v, sep)
        evals += 1
        if o_vv != o_v:
            tagB, att = culprit_tag(items, d, C.outcome(gs1.info, v, sep), sep)
            wB = dict(w, shrunk=True) if att else w
            if not att:
                tagB = blame('')
            add(viols, ('C16|roundtrip|%s' % tagB) if att else ('C16|B-validate-not-idempotent|%s' % tagB), 'validate(%r, %r) = %r but validating that gives %r' % (
                x, sep, v, o_vv[1] if o_vv[0] == 'ok' else o_vv[1:3]), wB)
    # C: encode/decode with every separator and parentheses flag
    for s2 in (SEPS if tier == 'thorough' else sorted({sep, '', '|'})):
        for par in (False, True):
            o_e = C.outcome(gs1.encode, d, s2, par)
            evals += 1
            var = [fmt_class(p) for a, p, r in sorted(items, key=lambda t: t[0]) if p.get('fnc1')]
            tag = ('+'.join(sorted(set(var[:-1]))[:2]) + '|notlast|nosep') if (not s2 and len(var) > 1) else ('+'.join(classes[:2]) + '|' + ('sep' if s2 else 'nosep'))
            if o_e[0] != 'ok':
                add(viols, 'C16|C-encode-fails|%s' % tag, 'encode(%r, %r, %r) fails: %s' % (d, s2, par, o_e[1:3]), dict(w, s2=s2, par=par))
                continue
            o_d = C.outcome(gs1.info, o_e[1], s2)
            evals += 1
            if o_d != o_info:
                t2, att = culprit_tag(items, d, o_d, s2)
                w2 = dict(w, s2=s2, par=par)
                if att:
                    tag = t2
                    w2['shrunk'] = True
                add(viols, ('C16|roundtrip|%s' % tag) if att else ('C16|C-encode-decode-differs|%s' % tag), 'info(encode(%r, %r, %r) = %r) = %r' % (
                    d, s2, par, o_e[1], o_d[1] if o_d[0] == 'ok' else o_d[1:3]), w2)
    return evals


def mapping_first(gs1, ais, rng, tier, viols, cells, counters):
    """Mappings written by a caller (not obtained by decoding): date and date-time values inside the window on which
    the two-digit-year conventions agree (strptime's 1969-2068 pivot and the -49/+50 year window of the GS1
    specifications) are encoded and decoded again."""
    import datetime
    today = datetime.date.today()
    y_lo, y_hi = max(1969, today.year - 49), min(2068, today.year + 50)
    evals = 0
    for ai, props in ais:
        if props.get('type') != 'date':
            continue
        fmt = props['format']
        for _ in range(6 if tier == 'quick' else 60):
            y = rng.choice((y_lo, y_hi, rng.randrange(y_lo, y_hi + 1), rng.randrange(y_lo, y_hi + 1)))
            d = datetime.date(y, rng.randrange(1, 13), rng.randrange(1, 29))
            dt = datetime.datetime(d.year, d.month, d.day, rng.randrange(1, 24), rng.randrange(1, 60))
            if fmt == 'N6':
                vals = [d]
            elif fmt == 'N10':
                vals = [dt]
            elif fmt in ('N6[+N4]', 'N6+N..4', 'N6[+N..4]'):
                vals = [d, dt]
            elif fmt in ('N8[+N..4]', 'N8+N..4'):
                vals = [dt.replace(minute=0), dt, dt.replace(second=rng.randrange(1, 60))]
            elif fmt in ('N6[+N6]', 'N6..12'):
                d2 = datetime.date(rng.randrange(y_lo, y_hi + 1), rng.randrange(1, 13), rng.randrange(1, 29))
                vals = [d, (d, d2)]
            else:
                continue
            for val in vals:
                mapping = {ai: val}
                for s2 in ('', '|'):
                    for par in (False, True):
                        o_e = C.outcome(gs1.encode, mapping, s2, par)
                        evals += 1
                        ctx = 'sep' if s2 else 'nosep'
                        cells.add(('mapping-first', fmt, ctx, type(val).__name__))
                        counters['mappings_encoded_first'] = counters.get('mappings_encoded_first', 0) + 1
                        w = {'mapping_first': True, 'ai': ai, 'value': repr(val), 's2': s2, 'par': par, 'x': '', 'sep': s2}
                        if o_e[0] != 'ok':
                            add(viols, 'C16|mapping-first|encode-fails|%s/date|%s' % (fmt, ctx), 'encode(%r, %r, %r) fails: %s' % (mapping, s2, par, o_e[1:3]), w)
                            continue
                        o_d = C.outcome(gs1.info, o_e[1], s2)
                        evals += 1
                        if o_d != ('ok', mapping):
                            how = 'other-century' if o_d[0] == 'ok' and isinstance(o_d[1].get(ai), (datetime.date, datetime.datetime)) and isinstance(val, datetime.date) \
                                and getattr(o_d[1].get(ai), 'year', 0) % 100 == val.year % 100 and o_d[1].get(ai).year != val.year else 'differs'
                            add(viols, 'C16|mapping-first|%s|%s/date|%s' % (how, fmt, ctx), 'info(encode(%r, %r, %r) = %r) = %r' % (
                                mapping, s2, par, o_e[1], o_d[1] if o_d[0] == 'ok' else o_d[1:3]), dict(w, x=o_e[1]))
    return evals


def context_independence(gs1, ais, rng, tier, viols, cells, counters):
    """The caller's decimal context (precision, rounding) is not an argument: decoding, validating and encoding give
    the same under a low-precision context as under the default one."""
    import decimal
    evals = 0
    for ai, props in ais:
        if props.get('type') != 'decimal':
            continue
        for shape in ('max', 'max', 'random'):
            try:
                raw = gs1gen.raw_value(props['format'], 'decimal', rng, shape, max_decimals=3)
            except gs1gen.UnsupportedFormat:
                break
            x = ai + raw
            base = (C.outcome(gs1.info, x), C.outcome(gs1.validate, x))
            for prec, rounding in ((5, decimal.ROUND_DOWN), (3, decimal.ROUND_HALF_EVEN), (1, decimal.ROUND_UP)):
                with decimal.localcontext() as ctx:
                    ctx.prec = prec
                    ctx.rounding = rounding
                    here = (C.outcome(gs1.info, x), C.outcome(gs1.validate, x))
                    enc = C.outcome(gs1.encode, base[0][1]) if base[0][0] == 'ok' else None
                enc0 = C.outcome(gs1.encode, base[0][1]) if base[0][0] == 'ok' else None
                evals += 3
                cells.add(('decimal-context', fmt_class(props), prec))
                counters['decimal_context_cases'] = counters.get('decimal_context_cases', 0) + 1
                if here != base or enc != enc0:
                    add(viols, 'C16|depends-on-decimal-context|%s' % fmt_class(props),
                        'element %r: info/validate/encode give %r / %r under decimal precision %d but %r / %r under the default context' % (
                            x, here, enc, prec, base, enc0),
                        {'decimal_context': True, 'x': x, 'sep': '', 'prec': prec})
    return evals


def work(shard, tier):
    from stdnum import gs1_128
    rng = C.rng_for('C16', shard['name'])
    path = os.path.join(C.REPO, 'stdnum', 'gs1_ai.dat')
    ais = gs1gen.read_ais(path)
    viols = {}
    cells = set()
    counters = {'cases': 0, 'decoded': 0, 'ais_in_registry': len(ais), '_samples': []}
    evals = 0
    n = 1500 if tier == 'quick' else 20000
    # every AI on its own first (each shard a slice), then combinations
    mine = ais[shard['part']::shard['parts']]
    for ai, props in mine:
        for _ in range(3):
            evals += one_case(gs1_128, ais, rng, tier, viols, cells, counters, forced=(ai, props))
    for _ in range(n):
        evals += one_case(gs1_128, ais, rng, tier, viols, cells, counters)
        counters['cases'] += 1
    if shard['part'] == 0:
        evals += mapping_first(gs1_128, ais, rng, tier, viols, cells, counters)
    if shard['part'] == 1 % shard['parts']:
        evals += context_independence(gs1_128, ais, rng, tier, viols, cells, counters)
    samples = counters.pop('_samples')
    return {'evaluations': max(evals, 1), 'nontrivial': 0, 'nontrivial_keys': ['|'.join(map(str, c)) for c in cells],
            'violations': list(viols.values()), 'samples': samples, 'counters': counters, 'maxes': {'ais_in_registry': len(ais)}}


def finish(agg, tier):
    if agg['counters'].get('decoded', 0) < 1000:
        return {'inconclusive': ['fewer than 1000 element strings decoded']}
    return {}


def replay(w):
    from stdnum import gs1_128
    viols = {}
    if w.get('decimal_context'):
        import decimal
        base = (C.outcome(gs1_128.info, w['x']), C.outcome(gs1_128.validate, w['x']))
        with decimal.localcontext() as ctx:
            ctx.prec = w['prec']
            here = (C.outcome(gs1_128.info, w['x']), C.outcome(gs1_128.validate, w['x']))
        if here != base:
            add(viols, 'C16|depends-on-decimal-context|replay', '%r vs %r' % (here, base), w)
        return list(viols.values())
    if w.get('mapping_first'):
        import datetime  # noqa: F401
        val = eval(w['value'], {'datetime': datetime})
        mapping = {w['ai']: val}
        o_e = C.outcome(gs1_128.encode, mapping, w['s2'], w['par'])
        if o_e[0] != 'ok' or C.outcome(gs1_128.info, o_e[1], w['s2']) != ('ok', mapping):
            add(viols, 'C16|mapping-first|replay', 'mapping %r does not survive encode/decode' % (mapping,), w)
        return list(viols.values())
    x, sep = w['x'], w['sep']
    o_info = C.outcome(gs1_128.info, x, sep)
    if o_info[0] != 'ok':
        add(viols, 'C16|decode-fails|replay', 'info fails', w)
        return list(viols.values())
    o_v = C.outcome(gs1_128.validate, x, sep)
    if o_v[0] != 'ok':
        add(viols, 'C16|validate-rejects-decodable|replay', 'validate fails', w)
    else:
        if C.outcome(gs1_128.info, o_v[1], sep) != o_info:
            add(viols, 'C16|A|replay', 'info(validate(x)) differs', w)
        if C.outcome(gs1_128.validate, o_v[1], sep) != o_v:
            add(viols, 'C16|B|replay', 'validate not idempotent', w)
    for s2 in SEPS:
        for par in (False, True):
            o_e = C.outcome(gs1_128.encode, o_info[1], s2, par)
            if o_e[0] != 'ok' or C.outcome(gs1_128.info, o_e[1], s2) != o_info:
                add(viols, 'C16|C|replay', 'encode/decode differs for %r %r' % (s2, par), w)
    return list(viols.values())
