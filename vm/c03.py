"""C03 - validation outcome depends only on compact(x) (DESIGN 3, C03).

Relational monitor: every (x, y) pair the *real* compact() maps together must
get the same validate() outcome.
"""

from vm import common as C
from vm import gen

META = {
    'level': 'exploration',
    'rule': ('per module with compact() (ISAN, MEID and the US SSN/ITIN/EIN/ATIN/TIN family excluded by the statement): '
             'seeds = valid corpus numbers, single-edit near-misses and garbage; each seed is decorated (separator / '
             'whitespace / case / look-alike characters at sampled or all positions, every-gap, double inserts, '
             'prefixes); inputs are grouped by the value the real compact() returns and every group must have one '
             'validate() outcome (accepted value or rejected). distinct_nontrivial = distinct groups holding >= 2 '
             'different spellings'),
    'assumptions': ['any exception counts as "rejected" here; the kind of exception is the business of C01'],
}

EXCLUDED = ('isan', 'meid', 'us.ssn', 'us.itin', 'us.ein', 'us.atin', 'us.tin')


def eligible():
    return sorted(n for n, m in C.number_modules().items() if hasattr(m, 'compact') and n not in EXCLUDED)


def shards(tier):
    names = eligible()
    n = 32 if tier == 'quick' else 64
    return [{'name': 'm%02d' % i, 'modules': part} for i, part in enumerate(C.chunk(names, n)) if part]


def seeds_for(name, tier, rng):
    nums = C.rich_corpus(name, 4 if tier == 'quick' else 25, rng)
    out = [('valid', v) for v in nums]
    for v in nums[:2 if tier == 'quick' else 8]:
        n = len(v)
        for _ in range(2 if tier == 'quick' else 6):
            p = rng.randrange(n)
            c = v[p]
            if c.isdigit():
                out.append(('near-miss', v[:p] + str((int(c) + rng.randrange(1, 10)) % 10) + v[p + 1:]))
            elif c.isalpha():
                out.append(('near-miss', v[:p] + rng.choice('ABCDEFGHJKLMNPQRSTUVWXYZ') + v[p + 1:]))
        out.append(('near-miss', v[:-1]))
        out.append(('near-miss', v + '0'))
        out.append(('near-miss', v[1:]))
    out.append(('garbage', 'ABC'))
    out.append(('garbage', '0000000000'))
    out.append(('garbage', '12-34.56 78/9'))
    return out


def char_class(c):
    import unicodedata
    if c.isspace() or c in '\x1c\x1d\x1e\x1f\x85':
        return 'whitespace'
    if c.isalpha():
        return 'letter'
    if c.isdigit():
        return 'digit'
    if ord(c) < 128:
        return 'ascii-punct'
    return 'unicode-' + unicodedata.category(c)


def diff_class(a, b):
    """Class and place of the first character in which two spellings differ."""
    if a.lower() == b.lower():
        return 'case'
    p = 0
    while p < len(a) and p < len(b) and a[p] == b[p]:
        p += 1
    longer = b if len(b) >= len(a) else a
    c = longer[p] if p < len(longer) else ' '
    return '%s@%s' % (char_class(c), p if p < 4 else 'body')


def group_check(name, mod, kind, seed, variants, viols, opts=None):
    """variants: [(cls, string)].  Returns number of groups with >= 2 spellings."""
    opts = opts or {}
    groups = {}
    evals = 0
    for cls, y in variants:
        oc = C.outcome(mod.compact, y)
        evals += 1
        if oc[0] != 'ok' or not isinstance(oc[1], str):
            continue
        ov = C.outcome(mod.validate, y, **opts)
        evals += 1
        groups.setdefault(oc[1], []).append((cls, y, C.short(ov)))
    nontriv = 0
    for cval, members in groups.items():
        spellings = {m[1] for m in members}
        if len(spellings) < 2:
            continue
        nontriv += 1
        outcomes = {}
        for cls, y, o in members:
            outcomes.setdefault(o, (cls, y))
        if len(outcomes) > 1:
            items = sorted(outcomes.items(), key=lambda kv: (kv[0][0] != 'ok', len(kv[1][1])))
            (oa, (ca, ya)), (ob, (cb, yb)) = items[0], items[-1]
            clause = 'accept-vs-reject' if (oa[0] == 'ok') != (ob[0] == 'ok') else 'different-values'
            sig = 'C03|%s|%s|%s' % (name, clause, diff_class(ya, yb))
            if sig in viols:
                viols[sig]['count'] += 1
            else:
                viols[sig] = {'sig': sig, 'count': 1,
                              'what': 'compact(%r) == compact(%r) == %r but validate gives %r vs %r' % (ya, yb, cval, oa, ob),
                              'witness': {'module': name, 'x': ya, 'y': yb, 'compact': cval, 'options': C.jsonable(opts),
                                          'x_codepoints': C.codepoints(ya)[:300], 'y_codepoints': C.codepoints(yb)[:300],
                                          'seed_kind': kind, 'classes': [ca, cb]}}
    return evals, nontriv


def work(shard, tier):
    mods = C.number_modules()
    viols = {}
    evals = 0
    nontriv = 0
    counters = {'groups_with_2plus_spellings': 0, 'seeds_valid': 0, 'seeds_near_miss': 0, 'seeds_garbage': 0}
    samples = []
    for name in shard['modules']:
        mod = mods[name]
        rng = C.rng_for('C03', name)
        optsets = [{}] + [o for o in C.validate_options(mod)]
        for kind, seed in seeds_for(name, tier, rng):
            variants = list(gen.decorations(seed, name, tier if kind == 'valid' else 'quick', rng))
            # look-alike spelling of each separator-like character
            variants += [('compactform', C.outcome(mod.compact, seed)[1])] if C.outcome(mod.compact, seed)[0] == 'ok' else []
            for opts in (optsets if kind == 'valid' else optsets[:1]):
                e, n = group_check(name, mod, kind, seed, variants, viols, opts)
                evals += e
                nontriv += n
            counters['seeds_' + kind.replace('-', '_')] += 1
        if len(samples) < 1 and viols == {}:
            samples.append({'module': name, 'seed': seed, 'n_variants': len(variants)})
    counters['groups_with_2plus_spellings'] = nontriv
    return {'evaluations': evals, 'nontrivial': nontriv, 'violations': list(viols.values()), 'samples': samples,
            'counters': counters, 'sets': {'modules_reached': shard['modules']}}


def replay(w):
    mod = C.number_modules()[w['module']]
    viols = {}
    group_check(w['module'], mod, w.get('seed_kind', ''), w['x'], [('x', w['x']), ('y', w['y'])], viols, w.get('options') or {})
    return list(viols.values())
