"""Independent reading of the GS1 application-identifier table and generator of element values that fit
each declared format (DESIGN 3, C16 / C11).  No code shared with stdnum.gs1_128."""

import calendar
import re

from vm import datfile as D

XCHARS = '!"%&\'*+,-./0123456789:;<=>?ABCDEFGHIJKLMNOPQRSTUVWXYZ_abcdefghijklmnopqrstuvwxyz'   # GS1 AI charset 82 minus ()
YCHARS = '#-/0123456789ABCDEFGHIJKLMNOPQRSTUVWXYZ'       # GS1 AI charset 39
ZCHARS = '-0123456789ABCDEFGHIJKLMNOPQRSTUVWXYZ_abcdefghijklmnopqrstuvwxyz'   # base64url

COMP_RE = re.compile(r'^([NXYZ])(\.\.)?([0-9]+)$')


class UnsupportedFormat(Exception):
    pass


def parse_format(fmt):
    """[(letter, variable?, length, optional?)] or UnsupportedFormat."""
    comps = []
    # optional parts are written [+X..17]
    rest = fmt
    parts = []
    while rest:
        if rest.startswith('[+'):
            e = rest.find(']')
            if e < 0:
                raise UnsupportedFormat(fmt)
            parts.append((rest[2:e], True))
            rest = rest[e + 1:]
        elif rest.startswith('+'):
            rest = rest[1:]
        else:
            m = re.match(r'^[^+\[]+', rest)
            if not m:
                raise UnsupportedFormat(fmt)
            parts.append((m.group(0), False))
            rest = rest[m.end():]
    for text, optional in parts:
        m = COMP_RE.match(text)
        if not m:
            raise UnsupportedFormat(fmt)
        comps.append((m.group(1), bool(m.group(2)), int(m.group(3)), optional))
    if not comps:
        raise UnsupportedFormat(fmt)
    return comps


def read_ais(path):
    """[(ai, props dict)] from the registry file (independent strict parser)."""
    roots, entries = D.parse_text(open(path, encoding='utf-8').read(), collect_errors=[])
    out = []
    for e in entries:
        if e.props is None:
            continue
        props = dict(e.props)
        for low, high in e.ranges:
            if low == high:
                out.append((low, props))
            else:
                for v in range(int(low), int(high) + 1):
                    out.append((str(v).zfill(len(low)), props))
    return out


def _chars(letter):
    return {'N': '0123456789', 'X': XCHARS, 'Y': YCHARS, 'Z': ZCHARS}[letter]


def _date6(rng, day00=False):
    y = rng.randrange(0, 100)
    m = rng.randrange(1, 13)
    full = 2000 + y if y < 69 else 1900 + y
    last = calendar.monthrange(full, m)[1]
    d = 0 if day00 else rng.choice((1, last, rng.randrange(1, last + 1)))
    return '%02d%02d%02d' % (y, m, d)


def raw_value(fmt, typ, rng, shape='random', forbid='', max_decimals=9):
    """A raw element value (text after the AI) fitting format and type.
    shape: random | min | max."""
    if fmt == 'N6+[-]':
        # six digits and an optional literal minus sign (temperature AIs 4330-4333)
        return ''.join(rng.choice('0123456789') for _ in range(6)) + ('-' if shape == 'max' or (shape == 'random' and rng.random() < 0.5) else '')
    comps = parse_format(fmt)
    if typ == 'date':
        base = _date6(rng, day00=(rng.random() < 0.2))
        if fmt == 'N6':
            return base
        if fmt == 'N10':
            return _date6(rng) + '%02d%02d' % (rng.randrange(24), rng.randrange(60))
        if fmt == 'N6[+N6]':
            return base if shape == 'min' or (shape == 'random' and rng.random() < 0.5) else base + _date6(rng, day00=(rng.random() < 0.2))
        if fmt == 'N6[+N4]':
            if shape == 'min' or (shape == 'random' and rng.random() < 0.5):
                return base
            return _date6(rng) + '%02d%02d' % (rng.randrange(24), rng.randrange(60))
        if fmt == 'N8[+N..4]':
            v = _date6(rng) + '%02d' % rng.randrange(24)
            k = {'min': 0, 'max': 2}.get(shape, rng.choice((0, 1, 2)))
            if k >= 1:
                v += '%02d' % rng.randrange(60)
            if k >= 2:
                v += '%02d' % rng.randrange(60)
            return v
        raise UnsupportedFormat(fmt + '/date')
    if typ == 'decimal':
        # [decimals digit][optional N3 currency][digits]
        cur = ''
        c = comps
        if len(c) == 2 and c[0] == ('N', False, 3, False):
            cur = ''.join(rng.choice('0123456789') for _ in range(3))
            c = c[1:]
        if len(c) != 1 or c[0][0] != 'N':
            raise UnsupportedFormat(fmt + '/decimal')
        _l, var, n, _o = c[0]
        length = n if not var else {'min': 1, 'max': n}.get(shape, rng.randrange(1, n + 1))
        digits = ''.join(rng.choice('0123456789') for _ in range(length))
        dec = rng.randrange(0, min(length, 9, max_decimals) + 1) if shape != 'min' else 0
        if var and digits[0] == '0' and length > 1 and dec < length:
            digits = rng.choice('123456789') + digits[1:]
        return str(dec) + cur + digits
    out = ''
    for letter, var, n, optional in comps:
        if optional and (shape == 'min' or (shape == 'random' and rng.random() < 0.5)):
            continue
        chars = ''.join(ch for ch in _chars(letter) if ch not in forbid)
        length = n if not var else {'min': 1, 'max': n}.get(shape, rng.randrange(1, n + 1))
        s = ''.join(rng.choice(chars) for _ in range(length))
        if letter == 'N' and length > 1 and rng.random() < 0.3:
            s = '0' * rng.choice((1, 1, 2, 3)) + s[rng.choice((1, 1, 2, 3)):]
            s = s[:length].ljust(length, '7')
        out += s
    if typ == 'int':
        return out
    # str values: the decoder strips surrounding blanks, keep the ends non-blank
    return out
