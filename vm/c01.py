"""C01 - error contract of validate()/is_valid() (DESIGN 3, C01).

Boundary contract monitor: every call of validate()/is_valid() made by the
workload is classified; the oracle is the contract itself.
"""

import inspect

from vm import common as C
from vm import gen

META = {
    'level': 'exploration',
    'rule': ('inputs: per module, valid corpus numbers (harvested from the tree\'s doctests, judged by the library) '
             'mutated by class x position (hostile insert/substitute, foreign digits, case-expanding letters, '
             'look-alikes, double inserts, truncation/extension), size classes up to 100k, junk objects, every '
             'validate() keyword option, clock sweep for clock readers. distinct_nontrivial = distinct '
             '(module, input class, position class, option, outcome kind) cells in which the input was a str that '
             'got past clean() (observed by a PY_RETURN probe on stdnum.util.clean) or a junk object'),
    'assumptions': ['corpus validity is judged by the library itself (inputs only, not an oracle)',
                    'CPython 3.12 of /venv; int() digit limit 4300 in force'],
}


THREAD_REPLICA = False   # this monitor uses a process-wide sys.monitoring probe / has its own thread trials


def shards(tier):
    names = sorted(C.number_modules())
    n = 32 if tier == 'quick' else 64
    return [{'name': 'm%02d' % i, 'modules': part} for i, part in enumerate(C.chunk(names, n)) if part] + \
        [{'name': 'doctest-suite', 'kind': 'doctests', 'modules': []}]


def trigger_of(cls):
    """Coarse, deterministic trigger class of an input class label."""
    if cls.startswith('junk:'):
        return 'junk'
    if cls.startswith('overlong'):
        return 'overlong'
    if cls.startswith('foreign-digit'):
        return 'foreign-digit'
    if cls.startswith('foreign-letter') or cls.startswith('case'):
        return 'foreign-letter'
    if cls == 'size':
        return 'tiny'
    return cls.split('-')[0]


def sig_for(modname, func, o, cls):
    return 'C01|%s|%s|%s|%s' % (modname, o[1], o[2], trigger_of(cls))


def check_pair(modname, mod, x_factory, opts, cls, viols, clockdate=None):
    """Run validate and is_valid on the same input and check the contract.
    Returns the validate outcome."""
    ov = C.outcome(mod.validate, x_factory(), **opts)
    oi = C.outcome(mod.is_valid, x_factory(), **opts)

    def add(sig, what, o):
        if sig in viols:
            viols[sig]['count'] += 1
            return
        x = x_factory()
        viols[sig] = {
            'sig': sig, 'what': what, 'count': 1,
            'witness': {'module': modname, 'arg': x if isinstance(x, str) else None,
                        'arg_repr': repr(x)[:300], 'codepoints': (C.codepoints(x)[:600] if isinstance(x, str) else None),
                        'junk': cls[5:] if cls.startswith('junk:') else None,
                        'options': C.jsonable(opts), 'cls': cls,
                        'clock': clockdate.isoformat() if clockdate else None,
                        'outcome': C.jsonable(o)}}
    if ov[0] == 'exc':
        add(sig_for(modname, 'validate', ov, cls),
            'validate() left with %s (%s) at %s' % (ov[1], ov[3], ov[2]), ov)
    elif ov[0] == 'ok' and not isinstance(ov[1], str):
        add('C01|%s|returns-nonstr|%s' % (modname, trigger_of(cls)),
            'validate() returned a %s instead of str' % type(ov[1]).__name__, ov)
    if oi[0] == 'exc':
        add(sig_for(modname, 'is_valid', oi, cls),
            'is_valid() raised %s (%s) at %s' % (oi[1], oi[3], oi[2]), oi)
    elif oi[0] == 've':
        add('C01|%s.is_valid|raises-ValidationError|%s' % (modname, oi[1]),
            'is_valid() raised %s' % oi[1], oi)
    elif oi[1] is not True and oi[1] is not False:
        add('C01|%s.is_valid|returns-%s' % (modname, type(oi[1]).__name__),
            'is_valid() returned %r, not exactly True/False' % (oi[1],), oi)
    if ov[0] != 'exc' and oi[0] == 'ok' and (oi[1] is True or oi[1] is False):
        if oi[1] != (ov[0] == 'ok'):
            add(('C01|%s|validate-returns-empty-string' % modname) if (ov[0] == 'ok' and ov[1] == '') else
                'C01|%s|is_valid-disagrees-with-validate|%s|%s' % (modname, 'accepts' if oi[1] else 'rejects', trigger_of(cls)),
                'is_valid() is %r but validate() %s' % (oi[1], 'returned' if ov[0] == 'ok' else 'raised ' + ov[1]),
                [ov, oi])
    return ov


def work(shard, tier):
    if shard.get('kind') == 'doctests':
        return doctest_suite_work()
    mods = C.number_modules()
    C.install_clock()
    clock_mods = set(C.clock_reading_modules()) | {'be.bis', 'be.ssn'}
    from stdnum import util
    probe = C.Probe()
    probe.start()
    past_clean = [0]
    probe.watch(util.clean, 'clean')

    def on_ret(tag, frame, retval):
        past_clean[0] += 1
    probe.on_return = on_ret

    viols = {}
    cells = set()
    evals = 0
    samples = []
    counters = {'accepted': 0, 'rejected_ve': 0, 'stray_exceptions': 0, 'junk_calls': 0, 'clock_calls': 0,
                'option_calls': 0, 'past_clean': 0}
    junk = C.junk_objects()
    modules_reached = []
    for name in shard['modules']:
        mod = mods[name]
        rng = C.rng_for('C01', name)
        nums = C.rich_corpus(name, 4 if tier == 'quick' else 25, rng, n_synth=2 if tier == 'quick' else 10, n_const=2 if tier == 'quick' else 10)
        if not nums:
            continue
        modules_reached.append(name)
        optsets = [{}] + C.validate_options(mod)
        # does is_valid take the same options?
        try:
            iv_params = set(inspect.signature(mod.is_valid).parameters)
        except (TypeError, ValueError):
            iv_params = set()
        inputs = list(gen.hostile_strings(nums, tier, rng)) + list(gen.size_strings(nums, tier))
        inputs += [('registry-probe', 'prefix', x) for x in C.registry_probe_inputs(name, rng, 30 if tier == 'quick' else 400)]
        from vm import c12
        if name in c12.SLICES:
            inputs += [('date-forced', 'fields', x) for x in c12.date_sources(name, mod, rng, 2 if tier == 'quick' else 20, require_valid=False)]
        inputs += [('extreme-field', 'window', x) for x in C.synth_field_extremes(name, rng, k=1 if tier == 'quick' else 3, raw=True, cap=300 if tier == 'quick' else 3000)]
        # payload sweep: numbers of the right shape with random digits/letters (rare check values, 1-in-100 branches)
        for v0 in nums[:2]:
            for _ in range(120 if tier == 'quick' else 3000):
                x = ''.join(rng.choice('0123456789') if c.isdigit() else rng.choice('ABCDEFGHJKLMNPQRSTUVWXYZ') if c.isalpha() and c.isascii() else c for c in v0)
                inputs.append(('payload-sweep', 'shape', x))
        for cls, pc, x in inputs:
            before = past_clean[0]
            ov = check_pair(name, mod, lambda x=x: x, {}, cls, viols)
            evals += 2
            reached = past_clean[0] > before
            if ov[0] == 'ok':
                counters['accepted'] += 1
            elif ov[0] == 've':
                counters['rejected_ve'] += 1
            else:
                counters['stray_exceptions'] += 1
            if reached:
                counters['past_clean'] += 1
                cells.add((name, cls, pc, '', ov[0]))
            if len(samples) < 3 and cls not in ('plain',) and rng.random() < 0.002:
                samples.append({'module': name, 'class': cls, 'pos': pc, 'input': x[:80], 'validate': C.jsonable(ov[:2])})
        # options on a sample of inputs
        if len(optsets) > 1:
            sub = [i for i in inputs if i[0] == 'plain'] + rng.sample(inputs, min(len(inputs), 60 if tier == 'quick' else 600))
            # the registry branches, payload sweep and extreme fields under every option value as well (few modules have options)
            special = [i for i in inputs if i[0] in ('registry-probe', 'payload-sweep', 'extreme-field', 'date-forced')]
            sub += special if len(special) <= 6000 else rng.sample(special, 6000)
            for opts in optsets[1:]:
                if not set(opts) <= iv_params:
                    # is_valid lacks the option: the property speaks of "the same options";
                    # only validate can be observed with it
                    for cls, pc, x in sub:
                        ov = C.outcome(mod.validate, x, **opts)
                        evals += 1
                        counters['option_calls'] += 1
                        if ov[0] == 'exc':
                            sig = sig_for(name, 'validate', ov, cls)
                            viols.setdefault(sig, {'sig': sig, 'what': 'validate(%r) left with %s at %s' % (opts, ov[1], ov[2]),
                                                   'count': 0, 'witness': {'module': name, 'arg': x, 'options': C.jsonable(opts), 'cls': cls, 'junk': None, 'clock': None}})
                            viols[sig]['count'] += 1
                    continue
                for cls, pc, x in sub:
                    ov = check_pair(name, mod, lambda x=x: x, opts, cls, viols)
                    evals += 2
                    counters['option_calls'] += 2
                    cells.add((name, cls, pc, repr(sorted(opts.items())), ov[0]))
        # junk objects
        for jname, factory in junk.items():
            for opts in optsets[:1]:
                ov = check_pair(name, mod, factory, opts, 'junk:' + jname, viols)
                evals += 2
                counters['junk_calls'] += 2
                cells.add((name, 'junk:' + jname, '', '', ov[0]))
        # clock sweep
        if name in clock_mods:
            sub = [i for i in inputs if i[0] in ('plain', 'digit-subst')][:40 if tier == 'quick' else 400]
            c0 = C.clock_calls()
            for d in C.CLOCK_SWEEP:
                C.set_clock(d)
                for cls, pc, x in sub:
                    for opts in optsets:
                        if not set(opts) <= iv_params:
                            continue
                        ov = check_pair(name, mod, lambda x=x: x, opts, cls, viols, clockdate=d)
                        evals += 2
                        cells.add((name, cls, 'clock:%d' % d.year, repr(sorted(opts.items())), ov[0]))
            C.set_clock(None)
            counters['clock_calls'] += C.clock_calls() - c0
            if C.clock_calls() == c0 and name not in ('be.bis', 'be.ssn'):
                # the injected clock was never consulted although the source reads the clock
                viols_inc = 'clock wrapper never called for clock-reading module %s' % name
                return {'evaluations': evals, 'nontrivial': len(cells), 'violations': list(viols.values()),
                        'inconclusive': [viols_inc]}
    probe.stop()
    return {'evaluations': evals, 'nontrivial': len(cells), 'violations': list(viols.values()),
            'samples': samples, 'counters': counters, 'sets': {'modules_reached': modules_reached}}


def finish(agg, tier):
    inc = []
    allmods = set(C.number_modules())
    reached = agg['sets'].get('modules_reached', set())
    missing = sorted(allmods - set(reached))
    if missing:
        inc.append('no valid corpus number for modules: %s' % ', '.join(missing))
    return {'modules_total': len(allmods), 'inconclusive': inc}


def replay(w):
    mods = C.number_modules()
    C.install_clock()
    mod = mods[w['module']]
    if w.get('clock'):
        import datetime
        C.set_clock(datetime.date.fromisoformat(w['clock']))
    viols = {}
    if w.get('junk'):
        factory = C.junk_objects()[w['junk']]
    else:
        factory = lambda: w['arg']  # noqa: E731
    opts = w.get('options') or {}
    try:
        iv_params = set(inspect.signature(mod.is_valid).parameters)
    except (TypeError, ValueError):
        iv_params = set()
    if set(opts) <= iv_params:
        check_pair(w['module'], mod, factory, opts, w.get('cls', 'plain'), viols)
    else:
        ov = C.outcome(mod.validate, factory(), **opts)
        if ov[0] == 'exc':
            sig = sig_for(w['module'], 'validate', ov, w.get('cls', 'plain'))
            viols[sig] = {'sig': sig, 'what': 'validate left with %s' % ov[1]}
    C.set_clock(None)
    return list(viols.values())


def doctest_suite_work():
    """The repository's own doctest suite with this property's boundary contract switched on."""
    rec, err = C.run_doctests_with_contracts('C01')
    if err:
        return {'evaluations': 0, 'nontrivial': 0, 'violations': [], 'inconclusive': ['contracts-on doctest run failed: %s' % err]}
    return {'evaluations': rec['calls'], 'nontrivial': 0, 'violations': rec['violations'],
            'samples': [{'workload': 'repository doctest suite under contracts', 'validate_calls': rec['calls'], 'pytest': rec['pytest_tail']}],
            'counters': {'doctest_suite_validate_calls': rec['calls'], 'doctest_suite_accepted_calls': rec['accepted'],
                         'doctest_suite_modules': len(rec['modules'])},
            'sets': {}}
