"""Cold-start trial for the WSGI application: N threads send their first request at once (fresh process)."""
import json
import os
import random
import sys
import threading
import time
import urllib.parse

VERIF = os.path.dirname(os.path.dirname(os.path.abspath(__file__)))
sys.path.insert(0, VERIF)


def main():
    spec = json.load(open(sys.argv[1]))
    from vm import common as C
    C.setup_repo()
    from vm import c18
    app = c18.load_app()
    root = C.REPO + os.sep
    mon = sys.monitoring
    TOOL = 4
    mon.use_tool_id(TOOL, 'verif-yield')
    yieldp = spec.get('yieldp', 0.02)
    hits = {}
    local = threading.local()

    def on_line(code, lineno):
        if not code.co_filename.startswith(root):
            return mon.DISABLE
        key = (code, lineno)
        c = hits.get(key, 0) + 1
        hits[key] = c
        if c > 300:
            return mon.DISABLE
        r = getattr(local, 'rng', None)
        if r is None:
            r = local.rng = random.Random('%s:%s' % (spec['seed'], threading.get_ident()))
        if r.random() < yieldp:
            time.sleep(0)
    mon.register_callback(TOOL, mon.events.LINE, on_line)
    sys.setswitchinterval(1e-6)
    n = spec['nthreads']
    barrier = threading.Barrier(n)
    results = []
    lock = threading.Lock()

    def run(i):
        nums = spec['numbers'][i % len(spec['numbers']):] + spec['numbers'][:i % len(spec['numbers'])]
        barrier.wait()
        for number in nums[:3]:
            q = 'number=' + urllib.parse.quote(number, safe='')
            try:
                status, headers, body = c18.call_app(app.application, c18.environ_for(q, True))
                doc = json.loads(body.decode('utf-8'))
                r = {'number': number, 'modules': [x.get('module') for x in doc], 'thread': i}
            except Exception as e:  # noqa: B902
                r = {'number': number, 'error': '%s: %s' % (type(e).__name__, str(e)[:100]), 'thread': i}
            with lock:
                results.append(r)
    threads = [threading.Thread(target=run, args=(i,)) for i in range(n)]
    mon.set_events(TOOL, mon.events.LINE)
    for t in threads:
        t.start()
    for t in threads:
        t.join(300)
    mon.set_events(TOOL, 0)
    print(json.dumps({'results': results}))
    sys.stdout.flush()
    os._exit(0)


if __name__ == '__main__':
    main()
