"""C07 - international identifiers agree with an independent reading of their standard (DESIGN 3, C07).

Reference-model monitor: validate() of 19 modules vs vm/refs.py on compact fixed points and standard display forms.
"""

import os
import re

from vm import common as C
from vm import datfile as D
from vm import refs

META = {
    'level': 'exploration',
    'rule': ('domain: ASCII strings s with module.compact(s) == s as observed on the real compact() (the electronic form), '
             'plus the display form each module\'s format() produces (both sides must accept it with the same canonical '
             'result); bitcoin sees raw strings (case is part of its standard). Inputs per module: corpus + synthesised '
             'valid numbers; every single-edit neighbour (substitution over the format alphabet, deletion, insertion, '
             'adjacent transposition); random strings over the alphabet for every length 0..max+2; every prefix / country '
             'code of the shared tables and one-letter neighbours; hostile ASCII at every position; exhaustive payload '
             'sweeps where small (ISSN, IMO, EAN-8, SEDOL numeric, ISBN-10 slice: seeded slice in quick, complete in '
             'thorough). distinct_nontrivial = distinct inputs accepted by at least one side + rejected inputs that passed '
             'the length and alphabet gate of the reference'),
    'assumptions': ['vm/refs.py is my transcription of the cited standards; every disagreement is read against the text',
                    'country-code lists and IBAN structures are the shipped tables (as the property requires)'],
}

MODULES = sorted(refs.REFS)


THREAD_REPLICA = False   # cold-start races of these modules resolve during corpus harvesting; C13's trials own them


def shards(tier):
    out = [{'name': m, 'kind': 'mod', 'module': m} for m in MODULES]
    k = 4 if tier == 'quick' else 16
    for space in ('issn', 'imo', 'ean8', 'sedol', 'isbn10'):
        for i in range(k):
            out.append({'name': 'sweep:%s:%d' % (space, i), 'kind': 'sweep', 'space': space, 'part': i, 'parts': k})
    return out


def tables():
    from stdnum import isin, isrc
    t = {'isin_countries': set(isin._country_codes), 'isrc_countries': set(isrc._country_codes)}
    roots, entries = D.parse_text(open(os.path.join(C.REPO, 'stdnum', 'iban.dat'), encoding='utf-8').read(), collect_errors=[])
    t['iban_structures'] = {}
    for e in entries:
        if e.props:
            props = dict(e.props)
            if 'bban' in props:
                for low, high in e.ranges:
                    t['iban_structures'][low] = props['bban']
    broots, bentries = D.parse_text(open(os.path.join(C.REPO, 'stdnum', 'be', 'banks.dat'), encoding='utf-8').read(), collect_errors=[])
    t['be_bank_ranges'] = [(lo, hi) for e in bentries if e.props for lo, hi in e.ranges]
    return t


def add(viols, sig, what, witness):
    if sig in viols:
        viols[sig]['count'] += 1
    else:
        viols[sig] = {'sig': sig, 'what': what, 'count': 1, 'witness': witness}


def compare(name, mod, ref, t, s, viols, stats, display=False):
    """Compare library and reference on one string.  Returns 1 if compared."""
    if not display and name != 'bitcoin':
        oc = C.outcome(mod.compact, s)
        if oc != ('ok', s):
            return 0
    if name == 'bitcoin' and not display:
        # surrounding blanks are a presentation matter (C03); letter case is part of this standard and is kept
        oc = C.outcome(mod.compact, s)
        if oc[0] != 'ok' or not isinstance(oc[1], str) or oc[1].lower() != s.lower():
            return 0
    lib = C.short(C.outcome(mod.validate, s))
    target = s
    if display:
        oc = C.outcome(mod.compact, s)
        if oc[0] != 'ok' or not isinstance(oc[1], str):
            return 0
        target = oc[1]
    try:
        rv, reason = ref(target, t)
    except Exception as e:  # noqa: B902
        rv, reason = None, 'reference-error-%s' % type(e).__name__
    w = {'module': name, 's': s, 'display': display}
    if lib[0] == 'ok' or rv is not None:
        stats['keys'].add(s)
    elif reason not in ('length', 'alphabet', 'format'):
        stats['keys'].add(s)
    if lib[0] == 'ok' and rv is None:
        add(viols, 'C07|%s|library-accepts-standard-rejects|%s' % (name, reason),
            '%s.validate(%r) = %r but the standard rejects it (%s)' % (name, s, lib[1], reason), w)
    elif lib[0] != 'ok' and rv is not None:
        add(viols, 'C07|%s|library-rejects-standard-accepts' % name, '%s.validate(%r) is rejected but the standard accepts it as %r' % (name, s, rv), w)
    elif lib[0] == 'ok' and lib[1] != rv:
        add(viols, 'C07|%s|canonical-form-differs' % name, '%s.validate(%r) = %r, the standard\'s electronic form is %r' % (name, s, lib[1], rv), w)
    return 1


def compare_presented(name, mod, ref, t, s, viols, stats):
    """A human-readable spelling: the reference removes what its standard's display form allows."""
    lib = C.short(C.outcome(mod.validate, s))
    target = refs.ref_clean(name, s)
    try:
        rv, reason = ref(target, t)
    except Exception as e:  # noqa: B902
        rv, reason = None, 'reference-error-%s' % type(e).__name__
    w = {'module': name, 's': s, 'presented': True}
    if lib[0] == 'ok' or rv is not None:
        stats['keys'].add(s)
    if lib[0] == 'ok' and rv is None:
        add(viols, 'C07|%s|library-accepts-standard-rejects|%s' % (name, reason),
            '%s.validate(%r) = %r but the standard, reading it as %r, rejects it (%s)' % (name, s, lib[1], target, reason), w)
    elif lib[0] != 'ok' and rv is not None:
        add(viols, 'C07|%s|library-rejects-standard-accepts' % name, '%s.validate(%r) is rejected but the standard reads it as %r' % (name, s, rv), w)
    elif lib[0] == 'ok' and lib[1] != rv:
        add(viols, 'C07|%s|canonical-form-differs' % name, '%s.validate(%r) = %r, the standard\'s electronic form is %r' % (name, s, lib[1], rv), w)
    return 1


def neighbours(v, alphabet, rng, tier):
    n = len(v)
    out = []
    for p in range(n):
        chars = alphabet if tier == 'thorough' or len(alphabet) <= 12 else rng.sample(alphabet, 8)
        for ch in chars:
            if ch != v[p]:
                out.append(v[:p] + ch + v[p + 1:])
        out.append(v[:p] + v[p + 1:])
        if p < n - 1 and v[p] != v[p + 1]:
            out.append(v[:p] + v[p + 1] + v[p] + v[p + 2:])
    for p in range(n + 1):
        for ch in (alphabet if tier == 'thorough' and len(alphabet) <= 12 else rng.sample(alphabet, min(4, len(alphabet)))):
            out.append(v[:p] + ch + v[p:])
    return out


HOSTILE_ASCII = ['\n', '\t', '\x00', '\x7f', '\x1c', '_', '+', '=', '%', '$', '@', '[', '`', '{', '~', '"', '\\', '!']


def mod_work(name, tier, viols, stats, counters):
    mod = C.get_module(name)
    ref = refs.REFS[name]
    t = tables()
    rng = C.rng_for('C07', name)
    alphabet = list(refs.ALPHABETS[name])
    evals = 0
    n = 12 if tier == 'quick' else 200
    base = C.corpus(name, limit=n, rng=rng)
    if name == 'iban':
        for extra in ('be.iban', 'es.iban', 'no.iban', 'me.iban'):
            base += C.corpus(extra, limit=6, rng=rng)
        from vm import c13
        base += c13.iban_generic_only(rng, 24)
    canon = []
    for v in base + C.synth_valid(name, n, rng, base=base) + C.synth_alphabet(name, rng, k=2) + C.synth_digits_only(name, rng, k=3):
        o = C.outcome(mod.compact, v)
        if o[0] == 'ok' and isinstance(o[1], str) and o[1] not in canon:
            canon.append(o[1])
    for c in canon:
        evals += compare(name, mod, ref, t, c, viols, stats)
        # standard display form
        if hasattr(mod, 'format'):
            f = C.outcome(mod.format, c)
            if f[0] == 'ok' and isinstance(f[1], str) and f[1] != c:
                evals += compare(name, mod, ref, t, f[1], viols, stats, display=True)
                counters['display_forms'] += 1
        for y in neighbours(c, alphabet, rng, tier if len(canon) < 40 else 'quick'):
            evals += compare(name, mod, ref, t, y, viols, stats)
        for ch in HOSTILE_ASCII:
            for p in sorted({0, 1, len(c) // 2, len(c) - 1, len(c)}):
                evals += compare(name, mod, ref, t, c[:p] + ch + c[p:], viols, stats)
                evals += compare(name, mod, ref, t, c[:p] + ch + c[p + 1:], viols, stats)
        # letters that only a case-insensitive match takes for A-Z and that upper() leaves alone (KELVIN SIGN, I WITH DOT)
        for p, ch in enumerate(c):
            if ch.isalpha():
                for odd in ('\u212a', '\u0130'):
                    evals += compare(name, mod, ref, t, c[:p] + odd + c[p + 1:], viols, stats)
        if name == 'bitcoin':
            for y in (c.upper(), c.lower(), c.swapcase(), c[:4] + c[4:].upper(), c.capitalize(), ' ' + c, c + '\n'):
                evals += compare(name, mod, ref, t, y, viols, stats)
    # numbers that are valid according to the *reference* (payload mutated, check characters repaired by searching with
    # the reference as judge): a library that starts rejecting a class of valid numbers cannot hide them from this
    def ref_ok(x):
        try:
            return ref(x, t)[0] is not None
        except Exception:  # noqa: B902
            return False
    def ref_repair(cand):
        found = cand if ref_ok(cand) else None
        if found is None:
            n2 = len(cand)
            for p in [n2 - 1, n2 - 2, 2, 3, 0, 1]:
                if not (0 <= p < n2):
                    continue
                for ch in refs.DIGITS + 'X' + (refs.UPPER if not cand[p].isdigit() else ''):
                    y = cand[:p] + ch + cand[p + 1:]
                    if ref_ok(y):
                        return y
        if found is None and len(cand) > 4:
            for a in refs.DIGITS:
                for b in refs.DIGITS:
                    for y in (cand[:-2] + a + b, cand[:2] + a + b + cand[4:]):
                        if ref_ok(y):
                            return y
        return found
    refvalid = []
    for c in canon[:40 if tier == 'quick' else 400]:
        if not ref_ok(c):
            continue
        for _ in range(4 if tier == 'quick' else 12):
            s2 = list(c)
            idx = [i for i, ch in enumerate(s2) if ch.isalnum()]
            for p in rng.sample(idx, min(len(idx), rng.choice((1, 2, 3)))):
                pool = refs.DIGITS if s2[p].isdigit() else refs.UPPER if s2[p].isupper() else 'abcdefghijklmnopqrstuvwxyz'
                if name == 'bitcoin':
                    pool = refs._B32 if c[:3].lower() == 'bc1' else refs._B58
                s2[p] = rng.choice(pool)
            cand = ''.join(s2)
            found = ref_repair(cand)
            if found and found not in refvalid:
                refvalid.append(found)
    # the same for the other lengths the standard allows: digits inserted after / removed from the first digit run
    for c in canon[:6 if tier == 'quick' else 60]:
        dpos = [i for i, ch in enumerate(c) if ch.isdigit()]
        if len(dpos) < 3:
            continue
        for delta in (-3, -2, -1, 1, 2, 3, 4, 5):
            p = dpos[1]
            if delta > 0:
                cand = c[:p] + ''.join(rng.choice(refs.DIGITS) for _ in range(delta)) + c[p:]
            else:
                run = 0
                while p + run < len(c) and c[p + run].isdigit():
                    run += 1
                if run <= -delta:
                    continue
                cand = c[:p] + c[p - delta:]
            if len(cand) > refs.MAXLEN[name]:
                continue
            found = ref_repair(cand)
            if found and found not in refvalid and found not in canon:
                refvalid.append(found)
                counters['reference_valid_other_lengths'] = counters.get('reference_valid_other_lengths', 0) + 1
    for y in refvalid:
        evals += compare(name, mod, ref, t, y, viols, stats)
        # and written without the separators of the display form
        bare = ''.join(ch for ch in y if ch.isalnum())
        if bare != y:
            evals += compare_presented(name, mod, ref, t, bare, viols, stats)
    counters['reference_valid_synthesised'] += len(refvalid)
    # human-readable spellings: separators of the standard's display form anywhere, label variants in front
    seps, labels = refs.PRESENTATION[name]
    label_variants = []
    for lab in labels:
        core = lab.rstrip(':')
        label_variants += [lab, lab.lower(), lab + ' ', core, core[::-1], core[1:], core[:1], core[:-1], lab + lab, core + ' ', ' '.join(core),
                           core[1:] + core[:1], core.replace(core[0], core[-1])]
    for c in canon[:20]:
        ys = []
        for _ in range(6):
            p = rng.randrange(len(c) + 1)
            ys.append(c[:p] + rng.choice(seps) + c[p:])
        ys.append(rng.choice(seps).join(c))
        ys.append(c.lower())
        for lv in label_variants:
            ys += [lv + c, lv + ' ' + c, lv + c[1:]]
        for y in ys:
            evals += compare_presented(name, mod, ref, t, y, viols, stats)
            counters['presented_forms'] += 1
    if name == 'bitcoin':
        # addresses with a correct checksum over arbitrary data: the other rules (padding, version, lengths) decide
        for _ in range(300 if tier == 'quick' else 5000):
            ver = rng.choice((0, 0, 0, 1, 2, 16, 17, 31))
            L = rng.choice((0, 1, 3, 4, 32, 33, 34, 35, 51, 52, 53, 54, 64, 65, 66, rng.randrange(1, 70)))
            prog = [rng.randrange(32) for _ in range(L)]
            if prog and rng.random() < 0.5:
                prog[-1] = rng.choice((0, 0, 16, 8, 4))
            if rng.random() < 0.3:
                prog = prog + [0]
            y = refs.bech32_encode(ver, prog)
            evals += compare(name, mod, ref, t, y, viols, stats)
            # the same data under the Bech32m constant (BIP-350): not a BIP-173 address
            evals += compare(name, mod, ref, t, refs.bech32_encode(ver, prog, const=0x2bc830a3), viols, stats)
            evals += compare(name, mod, ref, t, y.upper(), viols, stats)
            counters['constructed_addresses'] += 1
        for _ in range(200 if tier == 'quick' else 3000):
            vb = rng.choice((0, 0, 5, 5, 1, 111, 128, 255))
            n = rng.choice((20, 20, 20, 19, 21, 0, 32))
            y = refs.base58check_encode(bytes([vb]) + bytes(rng.randrange(256) for _ in range(n)))
            evals += compare(name, mod, ref, t, y, viols, stats)
            counters['constructed_addresses'] += 1
    # identifiers that happen to begin with the letters of their own label (a label-stripping step must not eat them)
    label = name.split('.')[-1].upper()
    for c in canon[:8]:
        for lab in (label, label + ':', label[:2] + label[2:]):
            for L2 in sorted({len(x) for x in canon})[:4]:
                if L2 > len(lab):
                    body = lab + c[len(lab):] if len(c) >= L2 else lab
                    y = (body + c)[:L2]
                    evals += compare(name, mod, ref, t, y, viols, stats)
                    evals += compare_presented(name, mod, ref, t, y[:2] + seps[-1] + y[2:], viols, stats)
                    evals += compare_presented(name, mod, ref, t, lab + ' ' + y, viols, stats)
    # random strings over the alphabet, every length
    for L in range(0, refs.MAXLEN[name] + 3):
        for _ in range(20 if tier == 'quick' else 400):
            evals += compare(name, mod, ref, t, ''.join(rng.choice(alphabet) for _ in range(L)), viols, stats)
    # prefixes / country codes of the shared tables and their one-letter neighbours
    if name in ('isin', 'isrc', 'iban'):
        codes = sorted(t['isin_countries'] if name == 'isin' else t['isrc_countries'] if name == 'isrc' else t['iban_structures'])
        tail = {}
        for c in canon:
            tail.setdefault(len(c), c)
        for cc in codes + [a + b for a in 'AXZ' for b in 'AQZ'] + [cc[0] + ch for cc in codes[:40] for ch in 'AX']:
            for c in list(tail.values())[:3]:
                y = cc + c[2:]
                if name == 'isin':
                    from stdnum import isin as _m
                    y = y[:11] + _m.calc_check_digit(y[:11]) if all(ch in refs.ALNUM for ch in y[:11]) else y
                evals += compare(name, mod, ref, t, y, viols, stats)
        if name == 'iban':
            # a well-formed account for every registered structure, with own check digits
            for cc, structure in sorted(t['iban_structures'].items()):
                for _ in range(3 if tier == 'quick' else 30):
                    bban = ''
                    for m in re.finditer(r'(\d+)(!?)([nace])', structure):
                        pool = {'n': refs.DIGITS, 'a': refs.UPPER, 'c': refs.ALNUM, 'e': ' '}[m.group(3)]
                        bban += ''.join(rng.choice(pool) for _ in range(int(m.group(1))))
                    r = refs._mod97(bban + cc + '00')
                    y = cc + '%02d' % (98 - r) + bban
                    evals += compare(name, mod, ref, t, y, viols, stats)
                    for alias in ('00', '01', '99'):
                        evals += compare(name, mod, ref, t, cc + alias + bban, viols, stats)
    return evals


def sweep_work(shard, tier, viols, stats, counters):
    space = shard['space']
    t = tables()
    rng = C.rng_for('C07', shard['name'])
    evals = 0
    frac = 1.0 if tier == 'thorough' else 0.01

    def run(name, gen_fn, total):
        nonlocal evals
        mod = C.get_module(name)
        ref = refs.REFS[name]
        lo = total * shard['part'] // shard['parts']
        hi = total * (shard['part'] + 1) // shard['parts']
        if frac < 1.0:
            k = int((hi - lo) * frac)
            idxs = sorted(rng.sample(range(lo, hi), k))
        else:
            idxs = range(lo, hi)
        for i in idxs:
            for s in gen_fn(i):
                evals += compare(name, mod, ref, t, s, viols, stats)
        counters['sweep_payloads'] += len(idxs)
    if space == 'issn':
        run('issn', lambda i: ['%07d%s' % (i, c) for c in '0123456789X'], 10 ** 7)
    elif space == 'imo':
        run('imo', lambda i: ['%06d%d' % (i, c) for c in range(10)], 10 ** 6)
    elif space == 'ean8':
        run('ean', lambda i: ['%07d%d' % (i, c) for c in range(10)], 10 ** 7)
    elif space == 'sedol':
        run('gb.sedol', lambda i: ['%06d%d' % (i, c) for c in range(10)], 10 ** 6)
    elif space == 'isbn10':
        run('isbn', lambda i: ['%09d%s' % (i * 97 % 10 ** 9, c) for c in '0123456789X'], 10 ** 7 if tier == 'thorough' else 10 ** 6)
    return evals


def work(shard, tier):
    viols = {}
    stats = {'keys': set()}
    counters = {'display_forms': 0, 'sweep_payloads': 0, 'presented_forms': 0, 'constructed_addresses': 0, 'reference_valid_synthesised': 0}
    if shard['kind'] == 'mod':
        evals = mod_work(shard['module'], tier, viols, stats, counters)
        sets = {'modules': [shard['module']]}
    else:
        evals = sweep_work(shard, tier, viols, stats, counters)
        sets = {}
    samples = sorted(stats['keys'])[:2]
    return {'evaluations': max(evals, 1), 'nontrivial': len(stats['keys']), 'violations': list(viols.values()),
            'samples': [{'shard': shard['name'], 'input': s} for s in samples], 'counters': counters, 'sets': sets}


def finish(agg, tier):
    if len(agg['sets'].get('modules', ())) != len(MODULES):
        return {'inconclusive': ['not all 19 modules were compared']}
    return {'exhaustive_sweeps_complete': tier == 'thorough'}


def replay(w):
    viols = {}
    name = w['module']
    if w.get('presented'):
        compare_presented(name, C.get_module(name), refs.REFS[name], tables(), w['s'], viols, {'keys': set()})
        return list(viols.values())
    compare(name, C.get_module(name), refs.REFS[name], tables(), w['s'], viols, {'keys': set()}, display=w.get('display', False))
    return list(viols.values())
