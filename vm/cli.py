"""Entry point: ./check <ID> [--tier quick|thorough] [--replay path]

Runs the shards of one property's monitor in parallel subprocesses, classifies
what they observed against known_findings.json, writes evidence/<ID>.json and
replay files, and exits 0 (held on what was observed), 1 (violation) or
2 (inconclusive: a deciding monitor was not reached).
"""

import argparse
import concurrent.futures
import importlib
import json
import os
import shutil
import subprocess
import sys
import time

HERE = os.path.dirname(os.path.abspath(__file__))
VERIF = os.path.dirname(HERE)
if VERIF not in sys.path:
    sys.path.insert(0, VERIF)

from vm import common  # noqa: E402

PY = sys.executable
LEVELS = {}


def load_known():
    p = os.path.join(VERIF, 'known_findings.json')
    if not os.path.exists(p):
        return []
    return json.load(open(p, encoding='utf-8'))['findings']


def worker_main(args):
    mod = importlib.import_module('vm.' + args.id.lower())
    shard = json.load(open(args.shard_file))
    try:
        import resource
        lim = int(os.environ.get('VERIF_WORKER_MEM_GB', '6')) * 1024 ** 3
        resource.setrlimit(resource.RLIMIT_AS, (lim, lim))
    except Exception:  # noqa: B902
        pass
    t0 = time.monotonic()
    try:
        common.setup_repo()
        if '__replica__' in shard:
            res = common.thread_replica(mod, shard['__replica__'], args.tier)
        else:
            res = mod.work(shard, args.tier)
    except common.Inconclusive as e:
        res = {'evaluations': 0, 'nontrivial': 0, 'violations': [], 'inconclusive': [str(e)]}
    res['wall_s'] = time.monotonic() - t0
    res['shard'] = shard.get('name', '?')
    with open(args.out, 'w', encoding='utf-8') as f:
        json.dump(res, f, ensure_ascii=True)
    return 0


def run_one(cid, tier, shard, idx, outdir, timeout):
    sf = os.path.join(outdir, 'shard_%03d.in.json' % idx)
    of = os.path.join(outdir, 'shard_%03d.out.json' % idx)
    lf = os.path.join(outdir, 'shard_%03d.log' % idx)
    json.dump(shard, open(sf, 'w'))
    env = dict(os.environ)
    env.setdefault('PYTHONHASHSEED', '0')
    env['PYTHONDONTWRITEBYTECODE'] = '1'
    env['PYTHONIOENCODING'] = 'utf-8'
    cmd = [PY, '-B', os.path.join(HERE, 'cli.py'), cid, '--tier', tier, '--worker',
           '--shard-file', sf, '--out', of]
    try:
        with open(lf, 'w') as log:
            p = subprocess.run(cmd, stdout=log, stderr=subprocess.STDOUT, timeout=timeout, env=env, cwd=VERIF)
    except subprocess.TimeoutExpired:
        return {'shard': shard.get('name'), 'evaluations': 0, 'nontrivial': 0, 'violations': [],
                'inconclusive': ['shard %s exceeded the %ds watchdog' % (shard.get('name'), timeout)]}
    if p.returncode != 0 or not os.path.exists(of):
        tail = open(lf, errors='replace').read()[-1500:]
        return {'shard': shard.get('name'), 'evaluations': 0, 'nontrivial': 0, 'violations': [],
                'inconclusive': ['shard %s died (rc=%s): %s' % (shard.get('name'), p.returncode, tail)]}
    return json.load(open(of, encoding='utf-8'))


def merge(results):
    agg = {'evaluations': 0, 'nontrivial': 0, 'violations': {}, 'viol_counts': {}, 'samples': [],
           'counters': {}, 'sets': {}, 'inconclusive': [], 'keys': set(), 'maxes': {}}
    for r in results:
        agg['evaluations'] += r.get('evaluations', 0)
        agg['nontrivial'] += r.get('nontrivial', 0)
        for k in r.get('nontrivial_keys', []):
            agg['keys'].add(k)
        for v in r.get('violations', []):
            agg['violations'].setdefault(v['sig'], v)
            agg['viol_counts'][v['sig']] = agg['viol_counts'].get(v['sig'], 0) + v.get('count', 1)
        agg['samples'].extend(r.get('samples', [])[:6])
        for k, n in r.get('counters', {}).items():
            agg['counters'][k] = agg['counters'].get(k, 0) + n
        for k, n in r.get('maxes', {}).items():
            agg['maxes'][k] = max(agg['maxes'].get(k, n), n)
        for k, vals in r.get('sets', {}).items():
            agg['sets'].setdefault(k, set()).update(vals)
        agg['inconclusive'].extend(r.get('inconclusive', []))
    agg['nontrivial'] += len(agg['keys'])
    return agg


def main():
    ap = argparse.ArgumentParser()
    ap.add_argument('id')
    ap.add_argument('--tier', default=os.environ.get('VERIF_TIER', 'quick'), choices=['quick', 'thorough'])
    ap.add_argument('--replay')
    ap.add_argument('--worker', action='store_true')
    ap.add_argument('--shard-file')
    ap.add_argument('--out')
    ap.add_argument('--jobs', type=int, default=int(os.environ.get('VERIF_JOBS', '16')))
    args = ap.parse_args()
    cid = args.id.upper()
    args.id = cid
    if args.worker:
        return worker_main(args)
    mod = importlib.import_module('vm.' + cid.lower())

    if args.replay:
        common.setup_repo()
        rep = json.load(open(args.replay, encoding='utf-8'))
        viols = mod.replay(rep['witness'])
        same = [v for v in viols if v['sig'] == rep.get('sig')]
        if same:
            viols = same
        else:
            # other signatures only count if they are not recorded findings of the unchanged tree
            known = {k['signature'] for k in load_known() if k.get('status') == 'known'}
            viols = [v for v in viols if v['sig'] not in known]
        if viols:
            for v in viols:
                print('REPLAY still fails: %s :: %s' % (v['sig'], v['what']))
            print('VIOLATION property=%s replay=%s' % (cid, args.replay))
            return 1
        print('REPLAY: the recorded case no longer violates %s' % cid)
        return 0

    t0 = time.monotonic()
    outdir = os.path.join(common.OUT_ROOT, cid)
    shutil.rmtree(outdir, ignore_errors=True)
    os.makedirs(os.path.join(outdir, 'replay'), exist_ok=True)
    # evidence goes to /verif/evidence unless a scratch output root was asked for (seed matrix runs)
    evdir = os.environ.get('VERIF_EVIDENCE_DIR') or os.path.join(VERIF, 'evidence')
    os.makedirs(evdir, exist_ok=True)
    try:
        common.setup_repo()
        shards = mod.shards(args.tier)
    except common.Inconclusive as e:
        print('INCONCLUSIVE property=%s reason=%s' % (cid, e))
        return 2
    if getattr(mod, 'THREAD_REPLICA', True):
        rrng = common.rng_for(cid, 'replica')
        cands = [s for s in shards if s.get('kind', 'mod') not in ('sweep', 'cp', 'thread', 'cold', 'hist', 'doctests')]
        if hasattr(mod, 'replica_bases'):
            groups = mod.replica_bases(args.tier, rrng)
        else:
            groups = []
            for _ in range(2 if args.tier == 'quick' else 12):
                if len(cands) >= 2:
                    groups.append(rrng.sample(cands, 2))
        for gi, g in enumerate(groups):
            bases = []
            for b in g:
                b = dict(b)
                if isinstance(b.get('modules'), list) and len(b['modules']) > 5:
                    b['modules'] = rrng.sample(b['modules'], 5)
                bases.append(b)
            shards.append({'name': '__threads__%d' % gi, '__replica__': bases})
    timeout = getattr(mod, 'WATCHDOG', {'quick': 900, 'thorough': 6 * 3600})[args.tier]
    results = []
    with concurrent.futures.ThreadPoolExecutor(max_workers=args.jobs) as ex:
        futs = [ex.submit(run_one, cid, args.tier, s, i, outdir, timeout) for i, s in enumerate(shards)]
        for f in futs:
            results.append(f.result())
    agg = merge(results)
    extra = {}
    if hasattr(mod, 'finish'):
        extra = mod.finish(agg, args.tier) or {}
        agg['inconclusive'].extend(extra.pop('inconclusive', []))
        for v in extra.pop('violations', []):
            agg['violations'].setdefault(v['sig'], v)
            agg['viol_counts'][v['sig']] = agg['viol_counts'].get(v['sig'], 0) + v.get('count', 1)

    known = {k['signature']: k for k in load_known() if k['property'] == cid and k.get('status') == 'known'}
    new = []
    known_seen = []
    for sig in sorted(agg['violations']):
        v = agg['violations'][sig]
        if sig in known:
            known_seen.append(sig)
            print('KNOWN-FINDING: property=%s %s :: %s (seen %d times this run)' % (
                cid, sig, known[sig].get('what', v['what']), agg['viol_counts'][sig]))
        else:
            new.append(v)
    rc = 0
    for i, v in enumerate(new):
        path = os.path.join(outdir, 'replay', '%03d.json' % i)
        with open(path, 'w', encoding='utf-8') as f:
            json.dump({'property': cid, 'sig': v['sig'], 'what': v['what'], 'witness': v['witness'],
                       'seed': common.SEED, 'tier': args.tier}, f, ensure_ascii=True, indent=1)
        print('  %s :: %s' % (v['sig'], v['what']))
        print('VIOLATION property=%s replay=%s' % (cid, path))
        rc = 1
    wall = time.monotonic() - t0
    meta = mod.META
    if not agg['samples']:
        agg['samples'] = [{'note': 'no worker recorded a sample case', 'shards': [s.get('name') for s in shards[:3]]}]
    cov = {
        'evaluations': agg['evaluations'],
        'distinct_nontrivial': agg['nontrivial'],
        'rule': meta['rule'],
        'samples': agg['samples'][:40],
        'counters': agg['counters'],
        'shards': len(shards),
        'known_findings_reproduced': known_seen,
        'known_findings_not_reproduced': sorted(set(known) - set(known_seen)),
        'new_violation_signatures': [v['sig'] for v in new],
        'inconclusive': agg['inconclusive'][:20],
    }
    for k, vals in agg['sets'].items():
        vals = sorted(vals)
        cov['n_' + k] = len(vals)
        cov[k] = vals if len(vals) <= 300 else vals[:300] + ['... %d more' % (len(vals) - 300)]
    cov.update(agg['maxes'])
    cov.update(extra)
    if meta.get('exhaustive'):
        cov['exhaustive'] = True
    ev = {
        'property_id': cid, 'tier': args.tier, 'seed': common.SEED, 'level': meta['level'],
        'coverage': cov, 'assumptions': meta.get('assumptions', []), 'wall_s': round(wall, 2),
        'violations': len(new),
    }
    with open(os.path.join(evdir, cid + '.json'), 'w', encoding='utf-8') as f:
        json.dump(ev, f, ensure_ascii=True, indent=1, sort_keys=True)
    print('%s tier=%s seed=%d evaluations=%d distinct_nontrivial=%d known=%d new=%d wall=%.1fs' % (
        cid, args.tier, common.SEED, agg['evaluations'], agg['nontrivial'], len(known_seen), len(new), wall))
    if rc == 0 and agg['inconclusive']:
        for r in agg['inconclusive'][:3]:
            print('INCONCLUSIVE property=%s reason=%s' % (cid, str(r)[:600].replace('\n', ' | ')))
        return 2
    if rc == 0 and (agg['evaluations'] < 1 or agg['nontrivial'] < 2):
        print('INCONCLUSIVE property=%s reason=monitor observed nothing' % cid)
        return 2
    # keep only replays; shard files are scratch
    for fn in os.listdir(outdir):
        if fn.startswith('shard_'):
            os.unlink(os.path.join(outdir, fn))
    return rc


if __name__ == '__main__':
    sys.exit(main())
