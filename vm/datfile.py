"""Independent strict reader of registry (.dat) files and the executable model of the documented
prefix lookup (DESIGN 3, C10/C11).  Shares no code with stdnum.numdb."""

import os

from vm import common as C


class Entry:
    __slots__ = ('lineno', 'indent', 'ranges', 'props', 'children', 'text', 'parent')

    def __init__(self, lineno, indent, ranges, props, text):
        self.lineno = lineno
        self.indent = indent
        self.ranges = ranges        # [(low, high)]
        self.props = props          # [(key, value)] in file order
        self.children = []
        self.text = text
        self.parent = None


class GrammarError(Exception):
    def __init__(self, lineno, reason, text):
        Exception.__init__(self, '%d: %s: %r' % (lineno, reason, text))
        self.lineno = lineno
        self.reason = reason
        self.text = text


KEYCHARS = set('0123456789abcdefghijklmnopqrstuvwxyzABCDEFGHIJKLMNOPQRSTUVWXYZ-_')


def parse_line(lineno, line):
    """Strict grammar: indent, comma separated ranges, then key="value" pairs, nothing else."""
    text = line.rstrip('\n').rstrip('\r')
    i = 0
    while i < len(text) and text[i] == ' ':
        i += 1
    indent = i
    if i < len(text) and text[i] == '\t':
        raise GrammarError(lineno, 'tab in indentation', text)
    # ranges token runs up to the first whitespace
    j = i
    while j < len(text) and not text[j].isspace():
        j += 1
    token = text[i:j]
    if not token:
        raise GrammarError(lineno, 'no range', text)
    ranges = []
    for part in token.split(','):
        if part == '':
            raise GrammarError(lineno, 'empty range in list', text)
        bits = part.split('-')
        if len(bits) == 1:
            low = high = bits[0]
        elif len(bits) == 2:
            low, high = bits
        else:
            raise GrammarError(lineno, 'more than one hyphen in a range', text)
        if low == '' or high == '':
            raise GrammarError(lineno, 'empty range endpoint', text)
        if len(low) != len(high):
            raise GrammarError(lineno, 'range endpoints of different length', text)
        if low > high:
            raise GrammarError(lineno, 'range endpoints not ordered', text)
        ranges.append((low, high))
    # properties
    props = []
    k = j
    n = len(text)
    while True:
        while k < n and text[k] in ' \t':
            k += 1
        if k >= n:
            break
        s = k
        while k < n and text[k] in KEYCHARS:
            k += 1
        key = text[s:k]
        if not key:
            raise GrammarError(lineno, 'unparsed residue %r' % text[s:s + 20], text)
        if text[k:k + 2] != '="':
            raise GrammarError(lineno, 'property %r not followed by ="' % key, text)
        k += 2
        e = text.find('"', k)
        if e < 0:
            raise GrammarError(lineno, 'unterminated quote in property %r' % key, text)
        value = text[k:e]
        k = e + 1
        if k < n and text[k] not in ' \t':
            raise GrammarError(lineno, 'stray characters after the value of %r (unbalanced quote?)' % key, text)
        props.append((key, value))
    return Entry(lineno, indent, ranges, props, text)


def parse_text(text, collect_errors=None):
    """Parse a registry text into a tree.  Returns (roots, all_entries)."""
    roots = []
    entries = []
    stack = []   # entries by nesting
    for lineno, line in enumerate(text.splitlines(), 1):
        if line[:1] == '#' or line.strip() == '':
            continue
        try:
            e = parse_line(lineno, line)
        except GrammarError as ge:
            if collect_errors is None:
                raise
            collect_errors.append(ge)
            # keep the ranges if they can be read on their own, with unknown properties
            try:
                e = parse_line(lineno, line.rstrip('\n')[:len(line) - len(line.lstrip(' '))] + line.split()[0])
                e.props = None
                e.text = line.rstrip('\n')
            except (GrammarError, IndexError):
                continue
        while stack and stack[-1].indent >= e.indent:
            stack.pop()
        if stack:
            e.parent = stack[-1]
            stack[-1].children.append(e)
        else:
            if e.indent != 0 and collect_errors is not None and not roots:
                collect_errors.append(GrammarError(lineno, 'first entry is indented', line))
            roots.append(e)
        # consistent nesting: the indentation of siblings must be equal
        sibs = e.parent.children if e.parent else roots
        if len(sibs) > 1 and sibs[-2].indent != e.indent:
            err = GrammarError(lineno, 'indentation %d does not match its sibling at line %d (indent %d)' % (
                e.indent, sibs[-2].lineno, sibs[-2].indent), line)
            if collect_errors is None:
                raise err
            collect_errors.append(err)
        stack.append(e)
        entries.append(e)
    return roots, entries


UNKNOWN = '\x00props-unknown'
_index_cache = {}


def _index(level):
    """{L: ({exact value: [(order, entry)]}, [(low, high, order, entry)])} for big levels (pure speed-up)."""
    key = id(level)
    hit = _index_cache.get(key)
    if hit is not None and hit[0] is level:
        return hit[1]
    idx = {}
    order = 0
    for e in level:
        for low, high in e.ranges:
            exact, spans = idx.setdefault(len(low), ({}, []))
            if low == high:
                exact.setdefault(low, []).append((order, e))
            else:
                spans.append((low, high, order, e))
            order += 1
    _index_cache[key] = (level, idx)
    return idx


def model_info(query, level):
    """Executable model of the documented lookup rule."""
    if not query:
        return []
    best = None
    matches = []
    if len(level) > 200:
        idx = _index(level)
        for L in sorted(idx):
            if len(query) < L:
                continue
            exact, spans = idx[L]
            head = query[:L]
            found = list(exact.get(head, ()))
            found += [(o, e) for low, high, o, e in spans if low <= head <= high]
            if found:
                best = L
                matches = [e for _o, e in sorted(found, key=lambda t: t[0])]
                break
    else:
        for e in level:
            for low, high in e.ranges:
                L = len(low)
                if len(query) >= L and low <= query[:L] <= high:
                    if best is None or L < best:
                        best = L
                        matches = [e]
                    elif L == best:
                        matches.append(e)
    if best is None:
        return [(query, {})]
    props = {}
    nxt = []
    for e in matches:          # file order; an entry matched through two of its ranges contributes twice
        if e.props is None:
            props[UNKNOWN] = True   # malformed line: its properties have no defined meaning (C11 reports it)
            continue
        for k, v in e.props:
            props[k] = v
        nxt.extend(e.children)
    return [(query[:best], props)] + model_info(query[best:], nxt)


def dat_files():
    out = []
    base = os.path.join(C.REPO, 'stdnum')
    for root, _dirs, files in os.walk(base):
        for f in files:
            if f.endswith('.dat'):
                p = os.path.join(root, f)
                out.append((os.path.relpath(p, base)[:-4].replace(os.sep, '/'), p))
    return sorted(out)


def alphabet_of(entries):
    chars = set()
    for e in entries:
        for low, high in e.ranges:
            chars.update(low)
            chars.update(high)
    return sorted(chars)


def step(s, alphabet, delta):
    """Neighbour of s (same length) in the alphabet's order, or None."""
    idx = [alphabet.index(c) if c in alphabet else 0 for c in s]
    i = len(idx) - 1
    while i >= 0:
        idx[i] += delta
        if 0 <= idx[i] < len(alphabet):
            return ''.join(alphabet[j] for j in idx)
        idx[i] = 0 if delta > 0 else len(alphabet) - 1
        i -= 1
    return None
