"""C13 - results are independent of call history, ordering, aliasing and threads (DESIGN 3, C13)."""

import io
import json
import os
import re
import subprocess
import sys
import tempfile

from vm import common as C
from vm import calls
from vm import gen

META = {
    'level': 'exploration',
    'rule': ('(1) histories: one long-lived process executes seeded sequences of public calls (validate, is_valid, '
             'compact, format, info, split, get_*, to_*, guess_*, get_cc_module) over all modules with valid, near-miss, '
             'decorated and "generic-valid / nationally-invalid" arguments, mutating every returned container in place; '
             'every outcome is compared with the same call made alone in a pristine process (stdlib-only zygote that '
             'forks one child per call); (2) cache invariants at quiescent points: every registry in '
             'numdb._open_databases equals a fresh parse, every _country_modules entry equals a fresh resolution; '
             '(3) cold-start thread trials: fresh subprocesses in which 2..16 threads are released from a barrier into '
             'first uses of registries / country modules / shared helpers with LINE-level yield injection and a 1 us '
             'switch interval; every per-thread outcome is compared with the pristine outcome. distinct_nontrivial = '
             'distinct (module, function, argument) calls compared with the oracle + thread trials in which >= 2 threads '
             'were observed inside the same cold registry load'),
    'assumptions': ['the pristine-process outcome is the reference; three hash seeds of the reference must agree first',
                    'thread schedules are those produced under the GIL with yield injection; they are counted, not enumerated'],
}

WATCHDOG = {'quick': 900, 'thorough': 4 * 3600}
PY = sys.executable
HERE = os.path.dirname(os.path.abspath(__file__))


THREAD_REPLICA = False   # this monitor uses a process-wide sys.monitoring probe / has its own thread trials


def shards(tier):
    nh = 10 if tier == 'quick' else 32
    nt = 8 if tier == 'quick' else 32
    return ([{'name': 'hist%02d' % i, 'kind': 'hist', 'part': i, 'parts': nh} for i in range(nh)] +
            [{'name': 'thread%02d' % i, 'kind': 'thread', 'part': i} for i in range(nt)] +
            [{'name': 'clockshift', 'kind': 'clock'}])


def add(viols, sig, what, witness):
    if sig in viols:
        viols[sig]['count'] += 1
    else:
        viols[sig] = {'sig': sig, 'what': what, 'count': 1, 'witness': witness}


# ---------------------------------------------------------------------------
# call universe

def iban_generic_only(rng, k, only_cc=None):
    """IBANs that satisfy the generic rules (structure, mod 97) but not the national check of BE/ES/NO/ME."""
    from stdnum import iban
    out = []
    for v in C.corpus('iban') + C.corpus('be.iban') + C.corpus('es.iban') + C.corpus('no.iban') + C.corpus('me.iban'):
        c = iban.compact(v)
        if c[:2] not in ('BE', 'ES', 'NO', 'ME') or (only_cc and c[:2] != only_cc):
            continue
        for _ in range(3):
            p = rng.randrange(4, len(c))
            if not c[p].isdigit():
                continue
            m = c[:p] + str((int(c[p]) + rng.randrange(1, 10)) % 10) + c[p + 1:]
            m = m[:2] + iban.calc_check_digits(m) + m[4:]
            out.append(m)
        if only_cc and len(out) >= k:
            break
    if not only_cc and len(out) > k:
        out = rng.sample(out, k)
    return out


def prefixed_vat_numbers(rng, k):
    """Country-prefixed VAT numbers of every package that has a vat module (member states or not)."""
    from stdnum.util import get_cc_module
    out = []
    pkgs = sorted({n.split('.')[0] for n in C.number_modules() if '.' in n})
    for pkg in pkgs:
        cc = pkg.rstrip('_')
        m = get_cc_module(cc, 'vat')
        if m is None:
            continue
        name = m.__name__[len('stdnum.'):]
        for v in C.corpus(name, limit=k, rng=rng):
            try:
                c = m.compact(v)
            except Exception:  # noqa: B902
                continue
            for prefix in ((cc.upper(),) if cc != 'gr' else ('GR', 'EL')) + (('XI',) if cc == 'gb' else ()):
                out.append(c if c.upper().startswith(prefix) else prefix + c)
    return out


SAME_LENGTH_ALPHABETS = {
    'luhn': ['0123456789', '1234567890', '0123456789abcdef', '0123456789ABCDEF', 'fedcba9876543210'],
    'iso7064.mod_37_2': ['0123456789ABCDEFGHIJKLMNOPQRSTUVWXYZ*', 'ABCDEFGHIJKLMNOPQRSTUVWXYZ0123456789*', '0123456789X', '-0123456789'],
    'iso7064.mod_37_36': ['0123456789ABCDEFGHIJKLMNOPQRSTUVWXYZ', 'ABCDEFGHIJKLMNOPQRSTUVWXYZ0123456789', '0123456789', '9876543210'],
}


def alphabet_specs(rng, k):
    """Calls of the configurable algorithms with different alphabets of equal length (caches keyed too coarsely)."""
    specs = []
    for modname, alphas in SAME_LENGTH_ALPHABETS.items():
        for alpha in alphas:
            payload_alpha = alpha.rstrip('*X') if modname == 'iso7064.mod_37_2' and alpha[-1] in '*X' else alpha
            if modname == 'iso7064.mod_37_2' and alpha[0] == '-':
                payload_alpha = alpha[1:]
            for _ in range(k):
                w = ''.join(rng.choice(payload_alpha) for _ in range(rng.randrange(3, 12)))
                specs.append({'module': modname, 'func': 'calc_check_digit', 'args': [w], 'kwargs': {'alphabet': alpha}})
                specs.append({'module': modname, 'func': 'is_valid', 'args': [w + alpha[rng.randrange(len(alpha))]], 'kwargs': {'alphabet': alpha}})
    return specs


def universe(rng, modules, per_module):
    """List of call specs over the given modules."""
    mods = C.number_modules()
    specs = alphabet_specs(rng, 2)
    for name in modules:
        mod = mods[name]
        fns = calls.public_functions(mod)
        nums = C.corpus(name, limit=per_module, rng=rng)
        if not nums:
            continue
        args = list(nums)
        v = nums[0]
        args.append(v[:-1] + ('0' if v[-1:] != '0' else '1'))
        args.append(' ' + v.lower() + ' ')
        args.append('-'.join(v))
        args.append('')
        if name == 'iban':
            args += iban_generic_only(rng, 12)
        if name in ('eu.vat', 'vatin'):
            args += prefixed_vat_numbers(rng, 2)
        for a in args:
            for fname in fns:
                specs.append({'module': name, 'func': fname, 'args': [a]})
    # country-module resolution with case variants
    for cc in ('nl', 'NL', 'gr', 'el', 'EL', 'in', 'is', 'xx', 'Be', 'es', 'no', 'me'):
        for alias in ('vat', 'iban', 'personalid', 'businessid', 'postal_code'):
            specs.append({'module': 'util', 'func': 'get_cc_module_name', 'args': [cc, alias]})
    return specs


def _cc_module_name(cc, alias):
    from stdnum.util import get_cc_module
    m = get_cc_module(cc, alias)
    return getattr(m, '__name__', None)


def run_spec(spec):
    if spec['module'] == 'util':
        o = C.outcome(_cc_module_name, *spec['args'])
        if o[0] == 'ok':
            return ['ok', o[1]], None
        return [o[0], o[1]], None
    return calls.run_call(spec)


calls_run_call_original = calls.run_call


def _patched_run_call(spec):
    if spec.get('module') == 'util':
        return run_spec(spec)
    return calls_run_call_original(spec)


calls.run_call = _patched_run_call


def oracle(specs, hashseed='0'):
    """Pristine outcomes, in order, through a zygote process."""
    env = dict(os.environ)
    env['PYTHONHASHSEED'] = hashseed
    env['PYTHONDONTWRITEBYTECODE'] = '1'
    inp = ''.join(json.dumps(s) + '\n' for s in specs)
    p = subprocess.run([PY, '-B', os.path.join(HERE, 'zygote13.py')], input=inp.encode(), stdout=subprocess.PIPE,
                       stderr=subprocess.PIPE, env=env, timeout=3600)
    out = {}
    for line in p.stdout.decode().splitlines():
        d = json.loads(line)
        out[d['id']] = d['outcome']
    return out


# ---------------------------------------------------------------------------
# cache invariants (quiescent points)

def cache_invariant_violations():
    """Compare the process-wide caches with a fresh load / fresh resolution.  Returns a list of messages."""
    from vm import c10
    from stdnum import numdb
    problems = []
    for name, db in list(numdb._open_databases.items()):
        path = os.path.join(C.REPO, 'stdnum', name + '.dat')
        try:
            fresh = numdb.read(io.StringIO(open(path, encoding='utf-8').read()))
        except Exception as e:  # noqa: B902
            problems.append('registry %s cannot be re-read: %r' % (name, e))
            continue
        if c10.structure_digest(db) != c10.structure_digest(fresh):
            problems.append('registry %r in numdb._open_databases differs from a fresh read of %s.dat' % (name, name))
    from stdnum.util import get_cc_module
    for modname, alias in (('iban', 'iban'), ('eu.vat', 'vat'), ('vatin', 'vat')):
        m = sys.modules.get('stdnum.' + modname)
        if m is None:
            continue
        for cc, cached in list(getattr(m, '_country_modules', {}).items()):
            fresh = get_cc_module(cc, alias)
            if getattr(cached, '__name__', None) != getattr(fresh, '__name__', None):
                problems.append('%s._country_modules[%r] is %s but a fresh resolution gives %s' % (
                    modname, cc, getattr(cached, '__name__', None), getattr(fresh, '__name__', None)))
    return problems


# ---------------------------------------------------------------------------

def hist_work(shard, tier, viols, counters, samples, keys):
    rng = C.rng_for('C13', shard['name'])
    names = sorted(C.number_modules())
    rng.shuffle(names)
    # every shard sees all the cache owners plus a random share of the rest
    core = ['iban', 'eu.vat', 'vatin', 'isbn', 'imsi', 'mac', 'cfi', 'gs1_128', 'be.iban', 'es.iban', 'no.iban', 'me.iban',
            'at.tin', 'at.postleitzahl', 'cn.ric', 'my.nric', 'us.ein', 'es.nif', 'es.cif', 'be.vat', 'no.mva', 'id.nik',
            'nz.bankaccount', 'cz.bankaccount', 'eu.nace', 'isil', 'us.tin', 'de.stnr', 'isan', 'meid', 'luhn']
    share = names[shard['part']::shard['parts']]
    modules = list(dict.fromkeys([m for m in core if m in names] + share))
    specs = universe(rng, modules, 3 if tier == 'quick' else 8)
    n = 260 if tier == 'quick' else 3000
    hist = [dict(rng.choice(specs)) for _ in range(n)]
    # make sure orderings that matter are present: the same call early and late, and aliases of one registry
    hist += [dict(s) for s in rng.sample(hist, min(40, len(hist)))]
    for i, s in enumerate(hist):
        s['id'] = i
    observed = {}
    evals = 0
    for i, s in enumerate(hist):
        o, raw = calls.run_call(s)
        observed[i] = o
        evals += 1
        if raw is not None:
            counters['containers_mutated'] += calls.mutate(raw, rng)
        if i % 100 == 99 or i == len(hist) - 1:
            counters['quiescent_invariant_checks'] += 1
            for msg in cache_invariant_violations():
                kind = 'registry-differs' if msg.startswith('registry') else 'country-module-cache-differs'
                add(viols, 'C13|cache-invariant|%s' % kind, 'after %d calls: %s' % (i + 1, msg),
                    {'kind': 'hist', 'history': hist[:i + 1], 'shard': shard['name']})
    # pristine oracle
    uniq = {}
    for s in hist:
        k = json.dumps([s['module'], s['func'], s['args'], s.get('kwargs', {})], sort_keys=True)
        uniq.setdefault(k, s)
    ulist = [dict(s, id=k) for k, s in uniq.items()]
    ref = oracle(ulist, '0')
    evals += len(ulist)
    # configuration independence of the reference itself on a sample
    sample = rng.sample(ulist, min(len(ulist), 40 if tier == 'quick' else 300))
    ref1 = oracle(sample, '1')
    ref2 = oracle(sample, 'random')
    evals += 2 * len(sample)
    for s in sample:
        if not (ref.get(s['id']) == ref1.get(s['id']) == ref2.get(s['id'])):
            add(viols, 'C13|%s.%s|pristine-results-differ-between-hash-seeds' % (s['module'], s['func']),
                '%s.%s(%r): fresh interpreters with different hash seeds give %r / %r / %r' % (
                    s['module'], s['func'], s['args'], ref.get(s['id']), ref1.get(s['id']), ref2.get(s['id'])),
                {'kind': 'hashseed', 'call': {k: s[k] for k in ('module', 'func', 'args')}})
    for i, s in enumerate(hist):
        k = json.dumps([s['module'], s['func'], s['args'], s.get('kwargs', {})], sort_keys=True)
        want = ref.get(k)
        if want is None or (want and want[0] == 'harness-error'):
            counters['oracle_errors'] += 1
            continue
        keys.add(k)
        if observed[i] != want:
            add(viols, 'C13|%s.%s|differs-from-pristine-process' % (s['module'], s['func']),
                'call #%d %s.%s(%r) gave %r after this history but %r alone in a fresh interpreter' % (
                    i, s['module'], s['func'], s['args'], observed[i], want),
                {'kind': 'hist', 'history': [{k2: h[k2] for k2 in ('module', 'func', 'args')} for h in hist[:i + 1]], 'index': i,
                 'shard': shard['name'], 'seed': C.SEED})
    # dense histories of single modules: every public function on every spelling of a few numbers, under the default
    # and under every documented option value, the calls on one number next to one another (a memo of the last call,
    # a list reordered by the last match, a default that sticks) and then once more in random order
    cores = [m for m in core if m in names]
    dense_mods = [cores[i % len(cores)] for i in (shard['part'], shard['part'] + 10, shard['part'] + 20)] + share[:1 if tier == 'quick' else 6]
    mods = C.number_modules()
    for name in dict.fromkeys(dense_mods):
        mod = mods[name]
        fns = calls.public_functions(mod)
        nums = C.corpus(name, limit=3 if tier == 'quick' else 8, rng=rng)
        spell = []
        for v in nums:
            spell += [v, ''.join(ch for ch in v if ch.isalnum())]
            if hasattr(mod, 'format'):
                o = C.outcome(mod.format, v)
                if o[0] == 'ok' and isinstance(o[1], str):
                    spell.append(o[1])
        spell = list(dict.fromkeys(spell))[:8 if tier == 'quick' else 24]
        dense = []
        for a in spell:
            for fname, f in sorted(fns.items()):
                optsets = [{}] + [o for o in C.option_values(name, f) if o][:6]
                for o in optsets:
                    if all(isinstance(x, (str, int, bool, type(None))) for x in o.values()):
                        dense.append({'module': name, 'func': fname, 'args': [a], 'kwargs': o})
        if len(dense) > (250 if tier == 'quick' else 2000):
            dense = dense[:250 if tier == 'quick' else 2000]
        seq = [dict(d) for d in dense] + [dict(d) for d in rng.sample(dense, len(dense))]
        uniq2 = {}
        obs = []
        for d in seq:
            o, _raw = calls.run_call(d)
            obs.append(o)
            evals += 1
            uniq2.setdefault(json.dumps([d['module'], d['func'], d['args'], d.get('kwargs', {})], sort_keys=True), d)
        ref2 = oracle([dict(d, id=k) for k, d in uniq2.items()], '0')
        evals += len(uniq2)
        counters['dense_history_calls'] = counters.get('dense_history_calls', 0) + len(seq)
        counters['oracle_calls'] += len(uniq2)
        for i, d in enumerate(seq):
            k = json.dumps([d['module'], d['func'], d['args'], d.get('kwargs', {})], sort_keys=True)
            want = ref2.get(k)
            if want is None or (want and want[0] == 'harness-error'):
                counters['oracle_errors'] += 1
                continue
            keys.add(k)
            if obs[i] != want:
                add(viols, 'C13|%s.%s|differs-from-pristine-process' % (d['module'], d['func']),
                    'call #%d of a dense history: %s.%s(%r, **%r) gave %r but %r alone in a fresh interpreter' % (
                        i, d['module'], d['func'], d['args'], d.get('kwargs', {}), obs[i], want),
                    {'kind': 'hist', 'history': [{k2: h[k2] for k2 in ('module', 'func', 'args', 'kwargs')} for h in seq[:i + 1]], 'index': i,
                     'shard': shard['name'], 'seed': C.SEED})
    counters['history_calls'] += len(hist)
    counters['oracle_calls'] += len(ulist)
    if hist:
        samples.append({'history_head': [[h['module'], h['func'], h['args']] for h in hist[:4]], 'observed': [observed[i] for i in range(4)]})
    return evals


def clock_specs(rng, tier, d1, d2s):
    """Calls whose outcome may depend on the date: the clock-reading and date-carrying modules, on documented numbers,
    date-forced candidates and the same numbers with their year fields set around the dates of the trial."""
    from vm import c12
    mods = C.number_modules()
    names = sorted(set(C.clock_reading_modules()) | set(c12.SLICES) | set(c12.FIELDS))
    years = sorted({d.year + k for d in [d1] + d2s for k in (-1, 0, 1)})
    specs = []
    for name in names:
        if name not in mods:
            continue
        mod = mods[name]
        nums = C.corpus(name, limit=5 if tier == 'quick' else 40, rng=rng)
        try:
            nums += c12.date_sources(name, mod, rng, 2 if tier == 'quick' else 12, require_valid=False)[:30 if tier == 'quick' else 400]
        except Exception:  # noqa: B902
            pass
        extra = []
        for v in nums[:8]:
            for m in re.finditer(r'(?<![0-9])(19|20)[0-9]{2}(?![0-9])', v):
                for y in years:
                    extra.append(v[:m.start()] + str(y) + v[m.end():])
            # two-digit year fields: positions known from the date field map
            sl = c12.SLICES.get(name)
            if sl is not None:
                (y0, y1) = sl[0]
                c = C.outcome(mod.compact, v)
                if c[0] == 'ok' and isinstance(c[1], str) and len(c[1]) >= y1 and c[1][y0:y1].isdigit():
                    for y in years:
                        yy = str(y)[-(y1 - y0):]
                        extra.append(c[1][:y0] + yy + c[1][y1:])
        funcs = ['validate', 'is_valid'] + [f for f in sorted(calls.public_functions(mod)) if f.startswith('get_')]
        for v in list(dict.fromkeys(nums + extra)):
            for f in funcs:
                specs.append({'module': name, 'func': f, 'args': [v]})
    for i, sp in enumerate(specs):
        sp['id'] = i
    return specs


def clock_work(shard, tier, viols, counters, samples, keys):
    """Import-time capture of the date: a process that loaded the library at D1 and is still running at D2 must answer
    like one started at D2 (the statement lets results depend on the system date, not on the date of import)."""
    import datetime
    rng = C.rng_for('C13', 'clockshift')
    d1 = datetime.date.today()
    d2s = [d1 + datetime.timedelta(days=500), datetime.date(d1.year + 31, 1, 1)]
    specs = clock_specs(rng, tier, d1, d2s)
    evals = 0
    env = dict(os.environ)
    env['PYTHONHASHSEED'] = '0'
    env['PYTHONDONTWRITEBYTECODE'] = '1'
    for d2 in d2s:
        res = {}
        for mode in ('shift', 'pristine'):
            p = subprocess.run([PY, '-B', os.path.join(HERE, 'clocktrial.py'), mode, d1.isoformat(), d2.isoformat()],
                               input=json.dumps(specs).encode(), stdout=subprocess.PIPE, stderr=subprocess.PIPE, env=env, timeout=1800)
            if p.returncode != 0:
                raise C.Inconclusive('clock trial %s failed: %s' % (mode, p.stderr.decode('utf-8', 'replace')[-400:]))
            res[mode] = json.loads(p.stdout.decode())
        counters['clock_trials'] = counters.get('clock_trials', 0) + 1
        counters['clock_reads_during_import'] = counters.get('clock_reads_during_import', 0) + res['shift']['__meta__']['clock_reads_during_import']
        counters['clock_reads_in_trials'] = counters.get('clock_reads_in_trials', 0) + res['shift']['__meta__']['clock_reads_total']
        differing_dates = 0
        for sp in specs:
            a, b = res['shift'].get(str(sp['id'])), res['pristine'].get(str(sp['id']))
            evals += 2
            if a is None or b is None or 'harness-error' in (a[0], b[0]):
                counters['oracle_errors'] += 1
                continue
            keys.add('clock|%s|%s|%s|%s' % (sp['module'], sp['func'], sp['args'][0], d2))
            if a != b:
                add(viols, 'C13|%s.%s|depends-on-the-date-of-import' % (sp['module'], sp['func']),
                    '%s.%s(%r) on %s: %r in a process that imported the library on %s, %r in one started on %s' % (
                        sp['module'], sp['func'], sp['args'][0], d2, a, d1, b, d2),
                    {'kind': 'clock', 'call': {k: sp[k] for k in ('module', 'func', 'args')}, 'd1': d1.isoformat(), 'd2': d2.isoformat()})
        if len(samples) < 2 and specs:
            samples.append({'clock_trial': {'imported_on': d1.isoformat(), 'calls_on': d2.isoformat(), 'calls': len(specs),
                                            'clock_reads': res['shift']['__meta__']['clock_reads_total'],
                                            'first_call': [specs[0]['module'], specs[0]['func'], specs[0]['args']],
                                            'outcome': res['shift'].get('0')}})
    counters['clock_calls'] = counters.get('clock_calls', 0) + len(specs) * len(d2s)
    return evals


def thread_specs(rng, tier):
    """A set of calls that touch lazily loaded things, with plain arguments."""
    mods = C.number_modules()
    specs = []

    def add_calls(name, funcs, k=2):
        nums = C.corpus(name, limit=k, rng=rng)
        for v in nums:
            for f in funcs:
                if hasattr(mods[name], f):
                    specs.append({'module': name, 'func': f, 'args': [v]})
    add_calls('isbn', ['format', 'split', 'validate'], 3)
    add_calls('imsi', ['split', 'validate'])
    add_calls('mac', ['get_manufacturer', 'get_oui'], 3)
    add_calls('cfi', ['info'])
    add_calls('isil', ['validate'])
    add_calls('gs1_128', ['info', 'validate'])
    add_calls('be.iban', ['info', 'validate'])
    add_calls('at.tin', ['info'])
    add_calls('at.postleitzahl', ['info'], 3)
    add_calls('cn.ric', ['get_birth_place'])
    add_calls('my.nric', ['get_birth_place'])
    add_calls('us.ein', ['get_campus'])
    add_calls('eu.nace', ['info', 'get_label'])
    add_calls('nz.bankaccount', ['info'])
    add_calls('cz.bankaccount', ['info'])
    add_calls('id.nik', ['validate'])
    add_calls('iban', ['validate'], 12)
    add_calls('eu.vat', ['validate', 'guess_country'], 10)
    add_calls('vatin', ['validate'], 10)
    add_calls('es.iban', ['validate'])
    add_calls('no.iban', ['validate'])
    add_calls('me.iban', ['validate'])
    add_calls('ean', ['validate'])
    add_calls('imei', ['validate'])
    add_calls('isin', ['validate'])
    add_calls('de.stnr', ['validate'])
    for a in iban_generic_only(rng, 8):
        specs.append({'module': 'iban', 'func': 'validate', 'args': [a]})
    add_calls('de.handelsregisternummer', ['validate'], 4)
    add_calls('de.stnr', ['to_country_number', 'to_regional_number', 'format'], 6)
    add_calls('nz.bankaccount', ['validate'], 3)
    add_calls('mac', ['get_iab'], 2)
    # MAC addresses that share a 24-bit prefix but lie in different sub-blocks of the registry
    for a in ('00:1b:c5:00:01:23', '00-1B-C5-00-11-23', '70:B3:D5:00:10:00', '70:B3:D5:00:20:00', '8C:1F:64:00:10:00', '8C:1F:64:00:30:00'):
        for f in ('get_manufacturer', 'get_oui'):
            specs.append({'module': 'mac', 'func': f, 'args': [a]})
    # numbers typed with look-alike characters (no-break space, full-width digits, dashes): first use of the clean-up table
    for name in ('isbn', 'iban', 'nl.bsn', 'ean', 'eu.vat'):
        for v in C.corpus(name, limit=2, rng=rng):
            specs.append({'module': name, 'func': 'validate', 'args': [v.replace(' ', '\u00a0').replace('-', '\u2013')]})
            specs.append({'module': name, 'func': 'validate', 'args': [''.join(chr(0xFF10 + int(c)) if c.isdigit() else c for c in v)]})
            specs.append({'module': name, 'func': 'validate', 'args': ['\u00a0'.join(v)]})
    # non-ASCII letters where a registry lookup is the only gate
    for a in ('\u0391', '\u0410', 'A', 'B', '\u0392', '62.01', '\u0661'):
        specs.append({'module': 'eu.nace', 'func': 'validate', 'args': [a]})
    for cc in ('nl', 'gr', 'el', 'be', 'in', 'is', 'es', 'xx'):
        for alias in ('vat', 'iban', 'personalid'):
            specs.append({'module': 'util', 'func': 'get_cc_module_name', 'args': [cc, alias]})
    # helpers with caller supplied configuration (alphabets)
    for alpha in ('0123456789', '0123456789abcdef', '0123456789ABCDEFGHIJKLMNOPQRSTUVWXYZ', 'abcdef'):
        for _ in range(3):
            w = ''.join(rng.choice(alpha) for _ in range(rng.randrange(4, 16)))
            specs.append({'module': 'luhn', 'func': 'calc_check_digit', 'args': [w], 'kwargs': {'alphabet': alpha}})
            specs.append({'module': 'luhn', 'func': 'is_valid', 'args': [w], 'kwargs': {'alphabet': alpha}})
    for alpha in ('0123456789X', '0123456789ABCDEFGHIJKLMNOPQRSTUVWXYZ*'):
        w = ''.join(rng.choice(alpha[:-1]) for _ in range(9))
        specs.append({'module': 'iso7064.mod_37_2', 'func': 'calc_check_digit', 'args': [w], 'kwargs': {'alphabet': alpha}})
    specs.append({'module': 'util', 'func': 'number_module_names', 'args': []})
    for i, s in enumerate(specs):
        s['id'] = i
    return specs


def _number_module_names():
    from stdnum.util import get_number_modules
    return sorted(m.__name__ for m in get_number_modules())


_prev = calls.run_call


def _patched2(spec):
    if spec.get('module') == 'util' and spec.get('func') == 'number_module_names':
        o = C.outcome(_number_module_names)
        return ([o[0], o[1]] if o[0] != 'ok' else ['ok', o[1]]), None
    return _prev(spec)


calls.run_call = _patched2


def thread_work(shard, tier, viols, counters, samples, keys, sets):
    rng = C.rng_for('C13', shard['name'])
    specs = thread_specs(rng, tier)
    # a few modules of this shard's own choice for the one-module family (valid and invalid arguments mixed)
    mods = C.number_modules()
    onemods = rng.sample(sorted(mods), 4 if tier == 'quick' else 30)
    nid = max(s['id'] for s in specs) + 1 if specs and isinstance(specs[0].get('id'), int) else len(specs)
    for name in onemods:
        nums = C.corpus(name, limit=4, rng=rng)
        args = list(nums)
        for v in nums[:2]:
            args += [v[:-1] + ('0' if v[-1:] != '0' else '1'), v[:-1], ' ' + v.lower() + ' ']
        for a in args:
            for f in ('validate', 'is_valid', 'format', 'compact'):
                if hasattr(mods[name], f):
                    specs.append({'module': name, 'func': f, 'args': [a], 'id': nid, 'onemod': True})
                    nid += 1
    # module sweep: this shard's share of *all* number modules, each hammered by all threads for a while (one extra
    # trial): a module-level scratch variable shared between calls shows as a wrong answer
    nshards = 8 if tier == 'quick' else 32
    sweep_groups = []
    for name in sorted(mods)[shard['part']::nshards]:
        nums = C.corpus(name, limit=3, rng=rng)
        args = list(nums)
        for v in nums[:2]:
            args += [v[:-1] + ('0' if v[-1:] != '0' else '1'), ' ' + v.lower() + ' ']
        grp = []
        for a in args:
            for f in ('validate', 'is_valid', 'format', 'compact'):
                if hasattr(mods[name], f):
                    sp = {'module': name, 'func': f, 'args': [a], 'id': nid, 'sweep': True}
                    nid += 1
                    specs.append(sp)
                    grp.append(sp)
        if grp:
            sweep_groups.append(grp)
    ref = oracle(specs, '0')
    evals = len(specs)
    ntrials = 8 if tier == 'quick' else 60
    orders = set()
    for t in range(ntrials + (1 if tier == 'quick' else 3)):
        n = rng.choice((2, 4, 8, 8, 16))
        plans = []
        walk_family = False
        general = [s for s in specs if s['func'] != 'number_module_names']
        for _ in range(n):
            k = rng.randrange(6, 30)
            plan = rng.sample(general, min(k, len(general)))
            plans.append(plan)
        # half of the trials: all threads start with the same cold call (maximum contention)
        if t % 2 == 0:
            first = rng.choice(general)
            for p in plans:
                p.insert(0, first)
        # every third trial is focused on one family of shared state: all threads hammer it in random order
        if t % 3 == 1:
            fam = rng.choice(['luhn', 'modules', 'iban', 'vat', 'registries', 'lookalike', 'tables', 'nace', 'one-module', 'one-module', 'one-module'])
            if fam == 'luhn':
                group = [s for s in specs if s['module'] in ('luhn', 'iso7064.mod_37_2')]
            elif fam == 'modules':
                group = [s for s in specs if s['func'] in ('number_module_names', 'get_cc_module_name')]
            elif fam == 'iban':
                group = [s for s in specs if s['module'].endswith('iban')]
            elif fam == 'vat':
                group = [s for s in specs if s['module'] in ('eu.vat', 'vatin')]
            elif fam == 'lookalike':
                group = [s for s in specs if s['args'] and isinstance(s['args'][0], str) and not s['args'][0].isascii()]
            elif fam == 'tables':
                group = [s for s in specs if s['module'] in ('de.handelsregisternummer', 'de.stnr', 'nz.bankaccount', 'mac')]
            elif fam == 'nace':
                group = [s for s in specs if s['module'] == 'eu.nace']
            elif fam == 'one-module':
                # every thread inside the same (randomly chosen) module with valid and invalid arguments mixed: a
                # module-level scratch variable or table shared between calls shows as a wrong answer
                one = rng.choice(onemods)
                group = [s for s in specs if s['module'] == one and s.get('onemod')] or [s for s in specs if s['module'] == one]
            else:
                group = [s for s in specs if s['func'] in ('info', 'split', 'format', 'get_manufacturer', 'get_birth_place', 'get_campus', 'get_label')]
            if fam in ('tables', 'registries') and rng.random() < 0.7:
                one = rng.choice(sorted({s['module'] for s in group}))
                group = [s for s in group if s['module'] == one]
            plans = []
            for _ in range(n):
                plan = [rng.choice(group) for _ in range(60)]
                if fam == 'modules':
                    walk_family = True
                    plan.insert(0, [s for s in group if s['func'] == 'number_module_names'][0])
                plans.append(plan)
        if t >= ntrials:
            n = 8
            walk_family = False
            plans = []
            for _ in range(n):
                plan = []
                for grp in sweep_groups:
                    plan += [rng.choice(grp) for _ in range(40)]
                plans.append(plan)
            counters['modules_swept_under_threads'] = counters.get('modules_swept_under_threads', 0) + len(sweep_groups)
        spec = {'seed': '%d:%s:%d' % (C.SEED, shard['name'], t), 'nthreads': n, 'plans': plans,
                'yieldp': rng.choice((0.0, 0.01, 0.05, 0.2)) if t < ntrials else 0.2, 'preimport_country_modules': not walk_family}
        with tempfile.NamedTemporaryFile('w', suffix='.json', delete=False, dir=C.scratch_dir('C13')) as f:
            json.dump(spec, f)
            path = f.name
        env = dict(os.environ)
        env['PYTHONHASHSEED'] = '0'
        try:
            p = subprocess.run([PY, '-B', os.path.join(HERE, 'threadtrial.py'), path], stdout=subprocess.PIPE, stderr=subprocess.PIPE,
                               env=env, timeout=600)
        except subprocess.TimeoutExpired:
            counters['thread_trials_timed_out'] += 1
            os.unlink(path)
            continue
        os.unlink(path)
        try:
            res = json.loads(p.stdout.decode().strip().splitlines()[-1])
        except Exception:  # noqa: B902
            counters['thread_trials_failed_to_report'] += 1
            sets.setdefault('trial_errors', set()).add(p.stderr.decode()[-300:])
            continue
        if res.get('harness_errors'):
            counters['thread_trials_failed_to_report'] += 1
            sets.setdefault('trial_errors', set()).add(str(res['harness_errors'])[:300])
            continue
        counters['thread_trials'] += 1
        counters['line_events'] += res['stats']['line_events']
        counters['yields_injected'] += res['stats']['yields']
        overl = [k for k, v in res['registry_files_opened_by_n_threads'].items() if v >= 2]
        if overl:
            counters['trials_with_overlapping_cold_loads'] += 1
            counters['overlapping_cold_loads'] += len(overl)
            keys.add('trial:%s:%d' % (shard['name'], t))
        if res['hung']:
            add(viols, 'C13|threads|hang', 'threads %r did not finish within 120 s' % res['hung'], {'kind': 'thread', 'trial': spec})
        for msg in res['invariants']:
            kind = 'registry-differs' if msg.startswith('registry') else 'country-module-cache-differs'
            if (walk_family or n >= 8) and kind == 'country-module-cache-differs' and ' is None ' in msg:
                add(viols, 'C13|threads|import-deadlock-error', msg, {'kind': 'thread', 'trial': spec})
                continue
            add(viols, 'C13|cache-invariant|%s|threads' % kind, 'after a %d-thread cold start: %s' % (n, msg), {'kind': 'thread', 'trial': spec})
        for ti, out in enumerate(res['results']):
            if out is None:
                continue
            orders.add(tuple(i for i, _o in out[:3]))
            for cid, o in out:
                evals += 1
                want = ref.get(cid)
                if want is None or want[0] == 'harness-error':
                    continue
                if o != want:
                    s = specs[cid]
                    # the module walk racing with package imports is a recorded CPython import-lock cycle: in the
                    # trial family that provokes it, failed or None resolutions are that finding, a wrong module
                    # list is not
                    cc_user = s['module'] in ('eu.vat', 'vatin', 'iban', 'be.iban', 'es.iban', 'no.iban', 'me.iban') or s['func'] == 'get_cc_module_name'
                    if o == ['exc', '_DeadlockError'] or (walk_family and s['func'] == 'get_cc_module_name' and (o[0] == 'exc' or o == ['ok', None])) \
                            or (cc_user and o in (['exc', 'AttributeError'], ['exc', 'ImportError'], ['exc', 'KeyError']) and n >= 8):
                        add(viols, 'C13|threads|import-deadlock-error',
                            '%d threads from a cold start: %s.%s(%r) raised importlib._DeadlockError' % (n, s['module'], s['func'], s['args']),
                            {'kind': 'thread', 'trial': spec, 'call': s})
                        continue
                    add(viols, 'C13|%s.%s|differs-under-threads' % (s['module'], s['func']),
                        '%d threads from a cold start: %s.%s(%r, %r) gave %r in thread %d, %r alone in a fresh interpreter' % (
                            n, s['module'], s['func'], s['args'], s.get('kwargs', {}), o, ti, want),
                        {'kind': 'thread', 'trial': spec, 'call': s})
        if t == 0:
            samples.append({'threads': n, 'yield_probability': spec['yieldp'], 'line_events': res['stats']['line_events'],
                            'registry_files_opened_by_n_threads': res['registry_files_opened_by_n_threads']})
    counters['distinct_thread_entry_orders'] += len(orders)
    return evals


def work(shard, tier):
    C.scratch_dir('C13')
    viols = {}
    counters = {'history_calls': 0, 'oracle_calls': 0, 'containers_mutated': 0, 'quiescent_invariant_checks': 0,
                'oracle_errors': 0, 'thread_trials': 0, 'trials_with_overlapping_cold_loads': 0, 'overlapping_cold_loads': 0,
                'line_events': 0, 'yields_injected': 0, 'distinct_thread_entry_orders': 0, 'thread_trials_timed_out': 0,
                'thread_trials_failed_to_report': 0}
    samples = []
    keys = set()
    sets = {}
    if shard['kind'] == 'hist':
        evals = hist_work(shard, tier, viols, counters, samples, keys)
    elif shard['kind'] == 'clock':
        evals = clock_work(shard, tier, viols, counters, samples, keys)
    else:
        evals = thread_work(shard, tier, viols, counters, samples, keys, sets)
    return {'evaluations': evals, 'nontrivial_keys': sorted(keys), 'nontrivial': 0, 'violations': list(viols.values()),
            'samples': samples, 'counters': counters, 'sets': {k: sorted(v) for k, v in sets.items()}}


def finish(agg, tier):
    inc = []
    c = agg['counters']
    if c.get('thread_trials_failed_to_report', 0) or c.get('thread_trials_timed_out', 0):
        inc.append('%d thread trials failed to report, %d timed out: %s' % (c.get('thread_trials_failed_to_report', 0),
                   c.get('thread_trials_timed_out', 0), list(agg['sets'].get('trial_errors', ()))[:2]))
    if c.get('thread_trials', 0) < 5:
        inc.append('fewer than 5 thread trials reported (%d); errors: %s' % (c.get('thread_trials', 0), list(agg['sets'].get('trial_errors', ()))[:2]))
    if c.get('trials_with_overlapping_cold_loads', 0) < 1:
        inc.append('no thread trial with two threads inside the same cold registry load was observed')
    if c.get('oracle_calls', 0) < 100 or c.get('oracle_errors', 0) > c.get('oracle_calls', 1) * 0.2:
        inc.append('pristine oracle unavailable (%d calls, %d errors)' % (c.get('oracle_calls', 0), c.get('oracle_errors', 0)))
    return {'inconclusive': inc}


def replay(w):
    viols = {}
    if w['kind'] == 'hist':
        hist = w['history']
        last = None
        rng = C.rng_for('C13', 'replay')
        for s in hist:
            o, raw = calls.run_call(s)
            last = (s, o)
            if raw is not None:
                calls.mutate(raw, rng)
        for msg in cache_invariant_violations():
            add(viols, 'C13|cache-invariant|replay', msg, w)
        if 'index' in w:
            s, o = last
            ref = oracle([dict(s, id=0)], '0')
            if ref.get(0) != o:
                add(viols, 'C13|%s.%s|differs-from-pristine-process' % (s['module'], s['func']), '%r vs %r' % (o, ref.get(0)), w)
    elif w['kind'] == 'clock':
        sp = dict(w['call'], id=0)
        env = dict(os.environ, PYTHONHASHSEED='0', PYTHONDONTWRITEBYTECODE='1')
        res = {}
        for mode in ('shift', 'pristine'):
            p = subprocess.run([PY, '-B', os.path.join(HERE, 'clocktrial.py'), mode, w['d1'], w['d2']], input=json.dumps([sp]).encode(),
                               stdout=subprocess.PIPE, stderr=subprocess.PIPE, env=env, timeout=600)
            res[mode] = json.loads(p.stdout.decode()).get('0')
        if res['shift'] != res['pristine']:
            add(viols, 'C13|%s.%s|depends-on-the-date-of-import' % (sp['module'], sp['func']), '%r vs %r' % (res['shift'], res['pristine']), w)
    elif w['kind'] == 'hashseed':
        s = dict(w['call'], id=0)
        a, b, c = oracle([s], '0'), oracle([s], '1'), oracle([s], '2')
        if not (a == b == c):
            add(viols, 'C13|%s.%s|pristine-results-differ-between-hash-seeds' % (s['module'], s['func']), '%r %r %r' % (a, b, c), w)
    else:
        C.scratch_dir('C13')
        for attempt in range(5):
            with tempfile.NamedTemporaryFile('w', suffix='.json', delete=False, dir=C.scratch_dir('C13')) as f:
                json.dump(w['trial'], f)
                path = f.name
            p = subprocess.run([PY, '-B', os.path.join(HERE, 'threadtrial.py'), path], stdout=subprocess.PIPE, stderr=subprocess.PIPE, timeout=600)
            os.unlink(path)
            res = json.loads(p.stdout.decode().strip().splitlines()[-1])
            allspecs = {}
            for plan in w['trial']['plans']:
                for s in plan:
                    allspecs[s['id']] = s
            ref = oracle(list(allspecs.values()), '0')
            for out in res['results']:
                for cid, o in out or []:
                    if ref.get(cid) is not None and o != ref.get(cid):
                        s = allspecs[cid]
                        add(viols, 'C13|%s.%s|differs-under-threads' % (s['module'], s['func']), '%r vs %r' % (o, ref.get(cid)), w)
            for msg in res['invariants']:
                add(viols, 'C13|cache-invariant|threads', msg, w)
            if viols:
                break
    return list(viols.values())
