"""C06 - generic checksum algorithms give their guarantees at any length (DESIGN 3, C06).

Two monitors per (algorithm, alphabet):
 (1) state observation: transitions (state, symbol) -> state' observed through the public checksum() on w and on w
     extended by one symbol at the end the algorithm consumes last; offline checks on the observed table
     (functional dependence under many prefixes and lengths, injectivity, transposition anti-symmetry);
 (2) neighbourhood oracle at the API: generated payloads of every length 1..64 and a few long ones.
"""

import string

from vm import common as C

META = {
    'level': 'exploration',
    'rule': ('per (algorithm, alphabet): (1) transition table of the fold observed via checksum() on random prefixes of '
             'length 0..80 (+ long ones), each entry required under >= 3 different prefixes, checked for functional '
             'dependence, per-symbol and per-state injectivity and (where the statement claims it) transposition '
             'anti-symmetry; (2) payloads of every length 1..64 plus 200/1000/4000: w+calc(w) validates, every other '
             'check character is rejected, single substitutions at every position and adjacent transpositions are '
             'checked through is_valid(). distinct_nontrivial = distinct transition-table entries observed + distinct '
             '(config, length, kind of edit) cells'),
    'assumptions': ['the abstract state (checksum value + position phase for Luhn/Verhoeff) is the whole state: this is '
                    'itself checked as functional dependence on the observations, not assumed',
                    'mod 97-10 beyond 4300 digits is cut off by CPython int()'],
}

PRINTABLE = string.digits + string.ascii_uppercase + string.ascii_lowercase + '!#$%&'


def configs():
    out = []
    for n in range(2, 41, 2):
        alpha = PRINTABLE[:n]
        if n == 10:
            alpha = '0123456789'
        if n == 16:
            alpha = '0123456789abcdef'
        if n == 36:
            alpha = '0123456789ABCDEFGHIJKLMNOPQRSTUVWXYZ'
        out.append({'name': 'luhn-%d' % n, 'algo': 'luhn', 'alphabet': alpha})
    out.append({'name': 'verhoeff', 'algo': 'verhoeff', 'alphabet': '0123456789'})
    out.append({'name': 'damm', 'algo': 'damm', 'alphabet': '0123456789'})
    # the caller-supplied quasigroup of the module's own documentation (zero diagonal, totally anti-symmetric)
    out.append({'name': 'damm-table', 'algo': 'damm', 'alphabet': '0123456789', 'kw': {'table': [
        [0, 2, 3, 4, 5, 6, 7, 8, 9, 1], [2, 0, 4, 1, 7, 9, 5, 3, 8, 6], [3, 7, 0, 5, 2, 8, 1, 6, 4, 9], [4, 1, 8, 0, 6, 3, 9, 2, 7, 5],
        [5, 6, 2, 9, 0, 7, 4, 1, 3, 8], [6, 9, 7, 3, 1, 0, 8, 5, 2, 4], [7, 5, 1, 8, 4, 2, 0, 9, 6, 3], [8, 4, 6, 2, 9, 5, 3, 0, 1, 7],
        [9, 8, 5, 7, 3, 1, 6, 4, 0, 2], [1, 3, 9, 6, 8, 4, 2, 7, 5, 0]]}})
    out.append({'name': 'mod_11_2', 'algo': 'iso7064.mod_11_2', 'alphabet': '0123456789', 'check_alphabet': '0123456789X'})
    out.append({'name': 'mod_37_2', 'algo': 'iso7064.mod_37_2', 'alphabet': '0123456789ABCDEFGHIJKLMNOPQRSTUVWXYZ',
                'check_alphabet': '0123456789ABCDEFGHIJKLMNOPQRSTUVWXYZ*'})
    out.append({'name': 'mod_37_2-0-9X', 'algo': 'iso7064.mod_37_2', 'alphabet': '0123456789', 'check_alphabet': '0123456789X',
                'kw': {'alphabet': '0123456789X'}})
    out.append({'name': 'mod_37_2-hex+', 'algo': 'iso7064.mod_37_2', 'alphabet': '0123456789ABCDEF', 'check_alphabet': '0123456789ABCDEF*',
                'kw': {'alphabet': '0123456789ABCDEF*'}})
    out.append({'name': 'mod_11_10', 'algo': 'iso7064.mod_11_10', 'alphabet': '0123456789'})
    out.append({'name': 'mod_37_36', 'algo': 'iso7064.mod_37_36', 'alphabet': '0123456789ABCDEFGHIJKLMNOPQRSTUVWXYZ'})
    out.append({'name': 'mod_37_36-dec', 'algo': 'iso7064.mod_37_36', 'alphabet': '0123456789', 'kw': {'alphabet': '0123456789'}})
    out.append({'name': 'mod_37_36-hex', 'algo': 'iso7064.mod_37_36', 'alphabet': '0123456789ABCDEF', 'kw': {'alphabet': '0123456789ABCDEF'}})
    out.append({'name': 'mod_97_10-digits', 'algo': 'iso7064.mod_97_10', 'alphabet': '0123456789'})
    out.append({'name': 'mod_97_10-alnum', 'algo': 'iso7064.mod_97_10', 'alphabet': '0123456789ABCDEFGHIJKLMNOPQRSTUVWXYZ'})
    return out


def replica_bases(tier, rng):
    """Threads run different alphabets of the same algorithm at once (shared per-alphabet caches would collide)."""
    cfg = {c['name']: dict(c, kind='api') for c in configs()}
    groups = [['luhn-10', 'luhn-16'], ['mod_37_2', 'mod_37_2-0-9X'], ['mod_37_36', 'mod_37_36-dec'], ['luhn-36', 'luhn-6'],
              ['mod_37_2-hex+', 'mod_37_2'], ['damm', 'verhoeff'], ['mod_97_10-digits', 'mod_97_10-alnum'], ['mod_11_2', 'mod_11_10']]
    if tier == 'quick':
        groups = groups[:3] + [rng.choice(groups[3:])]
    return [[cfg[a], cfg[b]] for a, b in groups]


def companion(cfg):
    """A configuration of the same algorithm whose alphabet has the same length but other symbols/order."""
    a = cfg['algo']
    alpha = cfg['alphabet']
    if a == 'luhn' and len(alpha) >= 4:
        return dict(cfg, name=cfg['name'] + '~rot', alphabet=alpha[1:] + alpha[:1])
    if a == 'iso7064.mod_37_2':
        chk = cfg.get('check_alphabet', alpha)
        rot = alpha[1:] + alpha[:1]
        extra = chk[len(alpha):]
        return dict(cfg, name=cfg['name'] + '~rot', alphabet=rot, check_alphabet=rot + extra, kw={'alphabet': rot + extra})
    if a == 'iso7064.mod_37_36':
        rot = alpha[1:] + alpha[:1]
        return dict(cfg, name=cfg['name'] + '~rot', alphabet=rot, kw={'alphabet': rot})
    return None


def shards(tier):
    return [dict(c, kind='api') for c in configs()] + [dict(c, kind='state', name=c['name'] + '/state') for c in configs()]


class Algo:
    def __init__(self, cfg):
        self.cfg = cfg
        self.mod = C.get_module(cfg['algo'])
        self.kw = dict(cfg.get('kw', {}))
        if cfg['algo'] == 'luhn':
            self.kw = {'alphabet': cfg['alphabet']}
        self.alpha = cfg['alphabet']
        self.check_alpha = cfg.get('check_alphabet', cfg['alphabet'])
        self.two = cfg['algo'].endswith('mod_97_10')

    def calc(self, w):
        f = self.mod.calc_check_digits if self.two else self.mod.calc_check_digit
        return f(w, **self.kw)

    def is_valid(self, s):
        return self.mod.is_valid(s, **self.kw)

    def validate(self, s):
        return C.outcome(self.mod.validate, s, **self.kw)

    def checksum(self, s):
        return self.mod.checksum(s, **self.kw)

    # which adjacent transpositions does the statement speak about
    def transposition_claim(self):
        a = self.cfg['algo']
        if a in ('verhoeff', 'damm', 'iso7064.mod_11_2', 'iso7064.mod_37_2'):
            return 'all'
        if a == 'iso7064.mod_97_10':
            return 'digits'
        if a == 'luhn':
            return 'luhn'
        return None


def add(viols, sig, what, witness):
    if sig in viols:
        viols[sig]['count'] += 1
    else:
        viols[sig] = {'sig': sig, 'what': what, 'count': 1, 'witness': witness}


def payloads(A, tier, rng):
    alpha = A.alpha
    lens = list(range(1, 65)) + [200, 1000] + ([4000] if not (A.two and alpha != '0123456789') else [2000])
    reps = 2 if tier == 'quick' else 12
    for L in lens:
        k = reps if L <= 64 else 1
        for _ in range(k):
            yield ''.join(rng.choice(alpha) for _ in range(L))
        if L <= 64 and L % 8 == 1:
            yield alpha[0] * L
            yield alpha[-1] * L
            yield (alpha[0] + alpha[-1]) * (L // 2) + alpha[0] * (L % 2)


def api_case(A, w, tier, rng, viols, cells):
    """Neighbourhood oracle on one payload.  Returns number of library calls."""
    name = A.cfg['name']
    evals = 0
    wit = {'config': A.cfg, 'payload': w}
    try:
        c = A.calc(w)
    except Exception as e:  # noqa: B902
        add(viols, 'C06|%s|generator-raises|%s' % (name, type(e).__name__), 'calc_check_digit(%r) raised %r' % (w[:80], e), wit)
        return 1
    s = w + c
    L = len(s)
    o = A.validate(s)
    evals += 2
    if o != ('ok', s):
        add(viols, 'C06|%s|generated-check-not-valid' % name,
            'payload %r (len %d) + generated %r is not accepted: %r' % (w[:80], len(w), c, o[:2]), wit)
        return evals
    cells.add((name, min(L, 70), 'completion'))
    # other check characters
    if not A.two:
        for c2 in A.check_alpha:
            if c2 != c:
                evals += 1
                if A.is_valid(w + c2):
                    add(viols, 'C06|%s|second-valid-check-character' % name,
                        'payload %r: both %r and %r validate' % (w[:80], c, c2), dict(wit, other=c2))
        cells.add((name, min(L, 70), 'other-check'))
    # single substitutions
    pos = range(L) if L <= 70 else sorted(set(rng.sample(range(L), 40)) | {0, 1, L - 2, L - 1, L - 3})
    for p in pos:
        ch = s[p]
        in_check = p >= len(w)
        if A.two and ch.isalpha():
            pool = [x for x in A.alpha if x.isalpha()]
        elif A.two:
            pool = list('0123456789')
        else:
            pool = list(A.check_alpha if in_check else A.alpha)
        if tier == 'quick' and len(pool) > 6 and L > 12:
            pool = rng.sample(pool, 6)
        for x in pool:
            if x == ch:
                continue
            t = s[:p] + x + s[p + 1:]
            evals += 1
            if A.is_valid(t):
                add(viols, 'C06|%s|single-substitution-accepted' % name,
                    'valid %r (len %d): position %d %r -> %r is still accepted' % (s[:80], L, p, ch, x),
                    dict(wit, valid=s, pos=p, repl=x))
    cells.add((name, min(L, 70), 'substitution'))
    # characters that are not in the alphabet at all (same-valued digits of other scripts, other ASCII)
    if L <= 24 and A.kw.get('alphabet'):
        # only where the caller supplies the alphabet: membership in it is then the definition of a valid symbol
        import unicodedata
        for p in rng.sample(range(L), min(L, 3)):
            ch = s[p]
            outs = [c for c in ('\uff10', '\u0660', '\u0966', '\U0001d7ce', '\u00b2', '\u2460', '_', '+', '\u0131', '\u212a') if c not in A.check_alpha]
            if ch.isdigit():
                for base in (0xFF10, 0x0660, 0x0966, 0x1D7CE, 0x1D7D8):
                    outs.append(chr(base + int(ch)))      # the same digit value in another script
            for x in outs:
                t = s[:p] + x + s[p + 1:]
                evals += 1
                if A.is_valid(t):
                    add(viols, 'C06|%s|character-outside-alphabet-accepted' % name,
                        'valid %r: position %d %r -> U+%04X (%s), not in the alphabet, is accepted' % (s[:60], p, ch, ord(x), unicodedata.name(x, '?')),
                        dict(wit, valid=s, pos=p, repl=x))
        cells.add((name, min(L, 70), 'outside-alphabet'))
    # adjacent transpositions
    claim = A.transposition_claim()
    if claim:
        for p in (range(L - 1) if L <= 70 else [q for q in pos if q < L - 1]):
            a, b = s[p], s[p + 1]
            if a == b:
                continue
            if claim == 'digits' and not (a.isdigit() and b.isdigit()):
                continue
            if not A.two and p + 1 == L - 1 and (b not in A.alpha or a not in A.check_alpha):
                continue  # would move a check-only symbol (X, *) into the payload
            t = s[:p] + b + a + s[p + 2:]
            evals += 1
            ok = A.is_valid(t)
            if claim == 'luhn':
                blind = {a, b} == {A.alpha[0], A.alpha[-1]}
                if ok and not blind:
                    add(viols, 'C06|%s|transposition-accepted' % name,
                        'valid %r: swapping positions %d,%d (%r%r) is accepted' % (s[:80], p, p + 1, a, b),
                        dict(wit, valid=s, pos=p))
                if blind and not ok:
                    add(viols, 'C06|%s|luhn-first-last-swap-detected' % name,
                        'valid %r: swapping %r%r at %d is rejected although Luhn cannot see that swap' % (s[:80], a, b, p),
                        dict(wit, valid=s, pos=p))
            elif ok:
                add(viols, 'C06|%s|transposition-accepted' % name,
                    'valid %r: swapping positions %d,%d (%r%r) is accepted' % (s[:80], p, p + 1, a, b),
                    dict(wit, valid=s, pos=p))
        cells.add((name, min(L, 70), 'transposition'))
    return evals


def state_of(A, w):
    """Abstract state of the fold after consuming w."""
    a = A.cfg['algo']
    if a == 'luhn':
        # contribution of w depends on the parity of what follows: observe the checksum with an even tail
        return (A.checksum(w + A.alpha[0] * 2) if w else 0, len(w) % 2)
    if a == 'verhoeff':
        return (A.checksum(w) if w else 0, len(w) % 8)
    if a == 'iso7064.mod_97_10':
        return (A.checksum(w) if w else 0,)
    return (A.checksum(w),)


def extend(A, w, sym):
    a = A.cfg['algo']
    if a in ('luhn', 'verhoeff'):
        return sym + w      # these fold over the reversed string: the first character is consumed last
    return w + sym


def state_work(A, tier, rng, viols):
    name = A.cfg['name']
    table = {}     # (state, sym) -> {state': count}
    support = {}   # (state, sym) -> set of (len) seen
    evals = 0
    syms = list(A.check_alpha if not A.two else A.alpha)
    n = 1500 if tier == 'quick' else 12000
    lens = list(range(0, 81)) + [150, 400, 1500]
    for i in range(n):
        L = lens[i % len(lens)] if i < 4 * len(lens) else rng.choice(lens[:81])
        w = ''.join(rng.choice(A.alpha) for _ in range(L))
        try:
            s0 = state_of(A, w)
        except Exception as e:  # noqa: B902
            add(viols, 'C06|%s|checksum-raises|%s' % (name, type(e).__name__), 'checksum(%r) raised %r' % (w[:60], e), {'config': A.cfg, 'w': w})
            continue
        evals += 1
        for sym in (syms if len(syms) <= 12 or tier == 'thorough' else rng.sample(syms, 12)):
            if sym not in A.alpha and A.cfg['algo'] != 'iso7064.mod_11_2' and A.cfg['algo'] != 'iso7064.mod_37_2':
                continue
            try:
                s1 = state_of(A, extend(A, w, sym))
            except Exception:  # noqa: B902
                continue
            evals += 1
            key = (s0, sym)
            d = table.setdefault(key, {})
            d[s1] = d.get(s1, 0) + 1
            support.setdefault(key, set()).add(L)
            if len(d) > 1:
                add(viols, 'C06|%s|state-not-functional' % name,
                    'from abstract state %r symbol %r leads to different states %r depending on the prefix (len %d): '
                    'the guarantee does not carry over to every length' % (s0, sym, sorted(d), L),
                    {'config': A.cfg, 'w': w, 'sym': sym, 'kind': 'state'})
    # offline checks on the observed table
    by_sym = {}
    by_state = {}
    for (s0, sym), d in table.items():
        if len(d) != 1:
            continue
        s1 = next(iter(d))
        by_sym.setdefault((sym, s0[1:] if len(s0) > 1 else ()), {}).setdefault(s1, []).append(s0)
        by_state.setdefault(s0, {}).setdefault(s1, []).append(sym)
    for (sym, phase), d in by_sym.items():
        for s1, sources in d.items():
            if len(set(sources)) > 1:
                add(viols, 'C06|%s|state-map-not-injective' % name,
                    'symbol %r maps states %r to the same state %r: an earlier single error can be cancelled' % (sym, sorted(set(sources))[:3], s1),
                    {'config': A.cfg, 'kind': 'state-table', 'sym': sym})
    for s0, d in by_state.items():
        for s1, ss in d.items():
            kinds = [x.isdigit() for x in set(ss)]
            if A.two and len(set(ss)) > 1 and not (kinds.count(True) > 1 or kinds.count(False) > 1):
                continue   # 97-10: a digit and a letter may coincide; the statement speaks of the same kind
            if len(set(ss)) > 1:
                add(viols, 'C06|%s|symbol-map-not-injective' % name,
                    'in state %r symbols %r lead to the same state %r: a single substitution goes unnoticed' % (s0, sorted(set(ss))[:4], s1),
                    {'config': A.cfg, 'kind': 'state-table', 'state': list(s0)})
    # transposition anti-symmetry on the observed table: d(d(s,a),b) != d(d(s,b),a)
    step = {k: next(iter(d)) for k, d in table.items() if len(d) == 1}
    claim = A.transposition_claim()
    pairs_checked = 0
    if claim:
        states = sorted({k[0] for k in step}, key=repr)
        symbols = [x for x in A.alpha if claim != 'digits' or x.isdigit()]
        for s0 in states:
            for i, a in enumerate(symbols):
                sa = step.get((s0, a))
                if sa is None:
                    continue
                for b in symbols[i + 1:]:
                    sb = step.get((s0, b))
                    if sb is None:
                        continue
                    sab, sba = step.get((sa, b)), step.get((sb, a))
                    if sab is None or sba is None:
                        continue
                    pairs_checked += 1
                    same = sab == sba
                    blind = claim == 'luhn' and {a, b} == {A.alpha[0], A.alpha[-1]}
                    if same and not blind:
                        add(viols, 'C06|%s|table-transposition-undetected' % name,
                            'from state %r the sequences %r%r and %r%r reach the same state %r' % (s0, a, b, b, a, sab),
                            {'config': A.cfg, 'kind': 'state-table', 'state': list(s0), 'a': a, 'b': b})
                    if blind and not same:
                        add(viols, 'C06|%s|luhn-first-last-swap-detected' % name,
                            'from state %r the sequences %r%r and %r%r differ although Luhn cannot see that swap' % (s0, a, b, b, a),
                            {'config': A.cfg, 'kind': 'state-table', 'state': list(s0), 'a': a, 'b': b})
    A.pairs_checked = pairs_checked
    entries = sum(1 for d in table.values() if len(d) == 1)
    well = sum(1 for k in table if len(support[k]) >= 3)
    return evals, table, entries, well


def work(shard, tier):
    A = Algo(shard)
    rng = C.rng_for('C06', shard['name'])
    viols = {}
    cells = set()
    evals = 0
    counters = {}
    samples = []
    if shard['kind'] == 'api':
        for w in payloads(A, tier, rng):
            evals += api_case(A, w, tier, rng, viols, cells)
            if len(samples) < 1 and len(w) > 5:
                samples.append({'config': shard['name'], 'payload': w[:60], 'check': A.calc(w)})
        # the same algorithm with a different alphabet of the same length, then the first one again, in this
        # process: per-alphabet state keyed too coarsely (by length) shows as a wrong check character
        comp = companion(shard)
        if comp is not None:
            B = Algo(comp)
            for rnd in range(3):
                for X in (B, A):
                    for _ in range(15):
                        L = rng.randrange(1, 20)
                        w = ''.join(rng.choice(X.alpha) for _ in range(L))
                        evals += api_case(X, w, tier, rng, viols, cells)
            counters['companion_alphabet_rounds'] = 3
        counters['api_cells'] = len(cells)
        nontriv = len(cells)
    else:
        e, table, entries, well = state_work(A, tier, rng, viols)
        evals += e
        counters['transition_entries_observed'] = entries
        counters['transition_entries_with_3plus_prefix_lengths'] = well
        counters['transposition_pairs_checked_on_table'] = getattr(A, 'pairs_checked', 0)
        nontriv = entries
        if table:
            k = sorted(table, key=repr)[0]
            samples.append({'config': shard['name'], 'state': list(k[0]), 'symbol': k[1], 'next': [list(x) for x in table[k]]})
        if entries < 4 and not viols:
            return {'evaluations': evals, 'nontrivial': nontriv, 'violations': [], 'inconclusive': ['%s: only %d transitions observed' % (shard['name'], entries)]}
    return {'evaluations': evals, 'nontrivial': nontriv, 'violations': list(viols.values()), 'samples': samples,
            'counters': counters, 'sets': {'configs': [shard['name']]}}


def replay(w):
    A = Algo(w['config'])
    rng = C.rng_for('C06', 'replay')
    viols = {}
    if w.get('kind', '').startswith('state'):
        state_work(A, 'quick', C.rng_for('C06', w['config']['name'] + '/state'), viols)
    else:
        api_case(A, w['payload'], 'thorough', rng, viols, set())
    return list(viols.values())
