"""C10 - registry lookup splits numbers losslessly and by the documented prefix rules (DESIGN 3, C10)."""

import io
import os

from vm import common as C
from vm import datfile as D

META = {
    'level': 'exploration',
    'rule': ('reference-model monitor: NumDB.info()/split() of the real reader+lookup vs an independent strict parser + '
             '20-line executable model. (a) the shipped registries: for every range both endpoints, endpoints +/- 1 in '
             'the file\'s alphabet and a mid value, each alone and followed by 1..6 characters chosen to hit/miss the '
             'children, random strings, the empty string; (b) generated well-formed registries (depth <= 4, 1..3 ranges '
             'per line, overlapping ranges of equal and different lengths, repeated property keys, 2..4 symbol '
             'alphabets) x 40 queries each, including repeated and reordered queries on one loaded database. '
             'distinct_nontrivial = distinct (file, query) pairs with >= 1 matching range and >= 2 parts, plus queries '
             'exercising an equal-length overlap or a shorter-wins overlap'),
    'assumptions': ['generated files are well-formed by construction (the strict parser accepts them)'],
}


def replica_bases(tier, rng):
    """Cold first use of one registry by two threads, next to another registry."""
    files = {name: {'name': 'file:' + name, 'kind': 'file', 'db': name, 'path': path} for name, path in D.dat_files()}
    pairs = [('isbn', 'cfi'), ('imsi', 'at/postleitzahl'), ('cn/loc', 'nz/banks'), ('gs1_ai', 'iban'), ('eu/nace', 'be/banks')]
    if tier == 'quick':
        pairs = rng.sample(pairs, 2)
    return [[files[a], files[b]] for a, b in pairs if a in files and b in files]


def shards(tier):
    out = []
    for name, path in D.dat_files():
        out.append({'name': 'file:' + name, 'kind': 'file', 'db': name, 'path': path})
    n = 16 if tier == 'quick' else 64
    out += [{'name': 'gen%02d' % i, 'kind': 'gen', 'part': i} for i in range(n)]
    out.append({'name': 'locale', 'kind': 'locale'})
    return out


LOCALE_ENVS = [
    ('utf8', {'LC_ALL': 'C.UTF-8', 'PYTHONUTF8': '1'}),
    ('posix-locale-no-utf8-mode', {'LC_ALL': 'C', 'LANG': 'C', 'PYTHONUTF8': '0', 'PYTHONCOERCECLOCALE': '0'}),
    ('posix-locale-default-flags', {'LC_ALL': 'POSIX', 'LANG': 'POSIX'}),
    ('latin1-stdio', {'LC_ALL': 'C', 'PYTHONUTF8': '0', 'PYTHONCOERCECLOCALE': '0', 'PYTHONIOENCODING': 'latin-1'}),
]


def locale_work(viols):
    """The registries must load to the same content whatever the process locale is (the files are UTF-8 by
    definition of the format, not by the user's settings): one child interpreter per environment."""
    import json
    import subprocess
    import sys
    here = os.path.dirname(os.path.abspath(__file__))
    results = {}
    for label, env in LOCALE_ENVS:
        e = {k: v for k, v in os.environ.items() if not k.startswith(('LC_', 'LANG', 'PYTHONUTF8', 'PYTHONCOERCECLOCALE', 'PYTHONIOENCODING'))}
        e.update(env)
        e['PYTHONHASHSEED'] = '0'
        try:
            p = subprocess.run([sys.executable, '-B', os.path.join(here, 'localetrial.py'), C.REPO], env=e, stdout=subprocess.PIPE,
                               stderr=subprocess.PIPE, timeout=600)
            results[label] = json.loads(p.stdout.decode('ascii')) if p.returncode == 0 else {'__error__': p.stderr.decode('utf-8', 'replace')[-400:]}
        except Exception as ex:  # noqa: B902
            results[label] = {'__error__': repr(ex)}
    ref = results['utf8']
    if '__error__' in ref:
        raise C.Inconclusive('locale trial: reference child failed: %s' % ref['__error__'])
    compared = 0
    for label, res in results.items():
        if label == 'utf8':
            continue
        if '__error__' in res:
            raise C.Inconclusive('locale trial: child %s failed: %s' % (label, res['__error__']))
        for name in sorted(ref):
            if name == 'encoding':
                continue
            compared += 1
            if res.get(name) != ref[name]:
                add(viols, 'C10|file|registry-depends-on-process-locale',
                    'registry %r loads as %r under %s (encodings %r) but as %r under UTF-8' % (name, res.get(name), label, res.get('encoding'), ref[name]),
                    {'label': 'locale:' + label, 'query': name})
    return compared, results


def add(viols, sig, what, witness):
    if sig in viols:
        viols[sig]['count'] += 1
    else:
        viols[sig] = {'sig': sig, 'what': what, 'count': 1, 'witness': witness}


def structure_digest(db):
    """(number of distinct child lists, total entries, checksum of their ranges) of a loaded NumDB -
    an invariant at quiescent points: lookups must not change the registry."""
    seen = set()
    total = 0
    acc = 0
    stack = [db.prefixes]
    while stack:
        lst = stack.pop()
        if id(lst) in seen:
            continue
        seen.add(id(lst))
        total += len(lst)
        if total > 2000000:
            break
        for item in lst:
            acc = (acc * 31 + hash((item[0], item[1], item[2], tuple(sorted(item[3].items()))))) & 0xFFFFFFFF
            stack.append(item[4])
    return (len(seen), total, acc)


def compare(db, roots, q, label, viols, stats, text=None):
    try:
        got = db.info(q)
        got = [(p, dict(d)) for p, d in got]
        split = list(db.split(q))
    except Exception as e:  # noqa: B902
        add(viols, 'C10|%s|lookup-raises|%s' % (label.split(':')[0], type(e).__name__), 'info(%r) raised %r' % (q, e),
            {'label': label, 'query': q, 'text': text})
        return
    want = D.model_info(q, roots)
    w = {'label': label, 'query': q, 'text': text, 'got': C.jsonable(got), 'model': C.jsonable(want)}
    kind = label.split(':')[0]
    if ''.join(p for p, _d in got) != q:
        add(viols, 'C10|%s|parts-do-not-concatenate' % kind, 'info(%r) parts %r do not concatenate to the query' % (q, [p for p, _ in got]), w)
    elif [p for p, _d in got] != [p for p, _d in want]:
        add(viols, 'C10|%s|split-differs-from-model' % kind, 'info(%r) splits as %r, the documented rule gives %r' % (
            q, [p for p, _ in got], [p for p, _ in want]), w)
    elif any(D.UNKNOWN in d for _p, d in want):
        stats.setdefault('touching_malformed_lines', set()).add(q)
    elif got != want:
        add(viols, 'C10|%s|properties-differ-from-model' % kind, 'info(%r) = %r, the documented rule gives %r' % (q, got, want), w)
    if split != [p for p, _d in got]:
        add(viols, 'C10|%s|split-differs-from-info' % kind, 'split(%r) = %r but info gives %r' % (q, split, got), w)
    if len(want) >= 2 and any(d for _p, d in want):
        stats['nontrivial'].add((label, q))


def queries_for_entries(entries, alphabet, rng, tier, cap):
    qs = []
    for e in entries:
        for low, high in e.ranges:
            L = len(low)
            cands = {low, high}
            for s, d in ((low, -1), (high, 1), (low, 1), (high, -1)):
                t = D.step(s, alphabet, d)
                if t:
                    cands.add(t)
            if low != high:
                mid = ''.join(rng.choice((a, b)) for a, b in zip(low, high))
                cands.add(mid)
            # path prefix: a value inside each ancestor's first range
            prefix = ''
            p = e.parent
            chain = []
            while p is not None:
                chain.append(p)
                p = p.parent
            for anc in reversed(chain):
                lo, hi = anc.ranges[0] if len(anc.ranges) == 1 else rng.choice(anc.ranges)
                prefix += rng.choice((lo, hi))
            for c in cands:
                qs.append(prefix + c)
                # hit/miss the children
                tails = ['']
                for ch in e.children[:3]:
                    lo, hi = rng.choice(ch.ranges)
                    tails.append(rng.choice((lo, hi)))
                    tails.append(lo + ''.join(rng.choice(alphabet) for _ in range(rng.randrange(0, 4))))
                tails.append(''.join(rng.choice(alphabet) for _ in range(rng.randrange(1, 7))))
                for t in tails[1:]:
                    qs.append(prefix + c + t)
                if len(c) > 1:
                    qs.append(prefix + c[:-1])
    if len(qs) > cap:
        qs = rng.sample(qs, cap)
    return qs


def gen_registry(rng):
    """A random well-formed registry text over a small alphabet."""
    alphabet = rng.choice(['01', '012', '0123', '01AB', '0123456789', '01.+', '0:$', 'aZ_9*'])     # any character but - , and blanks
    step_indent = rng.choice((1, 1, 2, 4))
    lines = []
    keys = ['a', 'b', 'c', 'name', 'x-y', 'k_1']

    def rnd_range(L):
        x = ''.join(rng.choice(alphabet) for _ in range(L))
        y = ''.join(rng.choice(alphabet) for _ in range(L))
        lo, hi = min(x, y), max(x, y)
        if rng.random() < 0.4:
            return lo
        return lo + '-' + hi if lo != hi else lo

    def emit(depth, indent):
        n = rng.randrange(1, 5 if depth == 0 else 4)
        for _ in range(n):
            L = rng.choice((1, 1, 2, 2, 3))
            k = rng.choice((1, 1, 1, 2, 3))
            rs = ','.join(rnd_range(rng.choice((L, L, rng.choice((1, 2, 3))))) for _ in range(k))
            props = ''
            for _p in range(rng.choice((0, 1, 1, 2, 3))):
                props += ' %s="%s"' % (rng.choice(keys), rng.choice(['v%d' % rng.randrange(5), '', 'A B', 'é']))
            lines.append(' ' * indent + rs + props)
            if depth < 3 and rng.random() < (0.55 if depth == 0 else 0.4):
                emit(depth + 1, indent + step_indent + (rng.choice((0, 0, 1)) if depth else 0))
    def emit_wide(indent):
        # one level with many equal-length entries: repeated values with different properties, ranges that touch or
        # overlap in one value, children under some of them (what an index over a level has to get right)
        L = rng.choice((2, 2, 3))
        digits = '0123456789'
        for _ in range(rng.randrange(64, 150)):
            lo = ''.join(rng.choice(digits) for _ in range(L))
            if rng.random() < 0.4:
                hi = str(min(10 ** L - 1, int(lo) + rng.choice((0, 1, 1, 2, 5, 9)))).zfill(L)
                rs = lo + '-' + hi if hi != lo else lo
            else:
                rs = lo
            props = ''.join(' %s="%s"' % (rng.choice(keys), 'w%d' % rng.randrange(9)) for _p in range(rng.choice((0, 1, 1, 2))))
            lines.append(' ' * indent + rs + props)
            if rng.random() < 0.15:
                for _c in range(rng.randrange(1, 4)):
                    lines.append(' ' * (indent + step_indent) + rnd_range(rng.choice((1, 2))) + ' c="%d"' % rng.randrange(5))
    def emit_chain(indent):
        # many equal-length ranges that follow one another, a few of them meeting in one value or listed twice
        L = 3
        blocks = []
        cur = rng.randrange(0, 40)
        for _ in range(rng.randrange(64, 160)):
            lo = cur + rng.choice((0, 0, 1, 1, 1, 2, 3))
            hi = lo + rng.choice((0, 0, 0, 1, 3, 8))
            if hi > 999:
                break
            cur = hi
            rs = '%03d' % lo if lo == hi else '%03d-%03d' % (lo, hi)
            block = [' ' * indent + rs + ''.join(' %s="%s"' % (rng.choice(keys), 'z%d' % rng.randrange(9)) for _p in range(rng.choice((0, 1, 1, 2))))]
            if rng.random() < 0.2:
                for _c in range(rng.randrange(1, 3)):
                    block.append(' ' * (indent + step_indent) + rnd_range(1) + ' c="%d"' % rng.randrange(5))
            blocks.append(block)
        if rng.random() < 0.5:
            rng.shuffle(blocks)
        for b in blocks:
            lines.extend(b)
    if rng.random() < 0.3:
        lines.append('# a comment')
    wide = rng.random() < 0.2
    if wide:
        alphabet = '0123456789'
        if rng.random() < 0.5:
            emit_wide(0)
        else:
            emit_chain(0)
    else:
        emit(0, 0)
    if rng.random() < 0.3:
        lines.insert(rng.randrange(len(lines)), '')
    # layout variants the line grammar allows: a tab or several blanks before the properties, trailing blanks,
    # DOS line ends
    r = rng.random()
    if r < 0.1:
        lines = [ln.replace(' ', '\t', 1) if not ln.startswith((' ', '#')) and ' ' in ln else ln for ln in lines]
    elif r < 0.2:
        lines = [ln + rng.choice(('', ' ', '  ')) for ln in lines]
    eol = '\r\n' if rng.random() < 0.12 else '\n'
    return eol.join(lines) + eol, alphabet


def work(shard, tier):
    from stdnum import numdb
    viols = {}
    stats = {'nontrivial': set()}
    evals = 0
    counters = {'queries': 0, 'generated_registries': 0, 'equal_length_overlap_queries': 0, 'shorter_wins_queries': 0}
    samples = []
    rng = C.rng_for('C10', shard['name'])
    if shard['kind'] == 'locale':
        compared, results = locale_work(viols)
        return {'evaluations': compared, 'nontrivial': compared, 'violations': list(viols.values()),
                'samples': [{'locale_trial': lab, 'encodings': r.get('encoding'), 'registries': len(r) - 1} for lab, r in results.items()],
                'counters': {'locale_environments': len(results), 'registry_loads_compared_across_locales': compared}, 'sets': {}}
    if shard['kind'] == 'file':
        text = open(shard['path'], encoding='utf-8').read()
        errors = []
        roots, entries = D.parse_text(text, collect_errors=errors)
        db = numdb.get(shard['db'])
        alphabet = D.alphabet_of(entries)
        cap = 4000 if tier == 'quick' else 200000
        if len(entries) > 10000:
            # the library's own lookup is a linear scan: keep the big registry affordable (C11 sweeps every entry)
            cap = 500 if tier == 'quick' else 30000
        qs = queries_for_entries(entries, alphabet, rng, tier, cap)
        qs += [''] + [''.join(rng.choice(alphabet) for _ in range(rng.randrange(1, 14))) for _ in range((300 if tier == 'quick' else 5000) if len(entries) <= 10000 else 60)]
        for q in qs:
            compare(db, roots, q, 'file:' + shard['db'], viols, stats)
            evals += 2
        # a fresh read of the same text must behave like the cached database
        db2 = numdb.read(io.StringIO(text))
        for q in qs[:200]:
            if db2.info(q) != db.info(q):
                add(viols, 'C10|file|fresh-read-differs-from-cached', 'info(%r) differs between numdb.get(%r) and a fresh read' % (q, shard['db']),
                    {'label': 'file:' + shard['db'], 'query': q})
            evals += 2
        counters['queries'] += len(qs)
        d_end = structure_digest(db)
        if d_end != structure_digest(db2) and d_end[1] < 2000000:
            add(viols, 'C10|file|lookup-mutates-registry', 'after %d lookups the cached registry %r differs from a fresh read (%r vs %r)' % (
                len(qs), shard['db'], d_end, structure_digest(db2)), {'label': 'file:' + shard['db'], 'query': qs[0] if qs else ''})
        if qs:
            samples.append({'file': shard['db'], 'query': qs[0], 'info': C.jsonable(db.info(qs[0]))})
    else:
        n = 120 if tier == 'quick' else 1500
        for i in range(n):
            text, alphabet = gen_registry(rng)
            try:
                roots, entries = D.parse_text(text)
            except D.GrammarError:
                continue   # generator produced something the strict grammar refuses: not a well-formed case
            counters['generated_registries'] += 1
            try:
                db = numdb.read(io.StringIO(text))
            except Exception as e:  # noqa: B902
                add(viols, 'C10|gen|read-raises|%s' % type(e).__name__, 'numdb.read raised %r on a well-formed registry' % e,
                    {'label': 'gen', 'text': text, 'query': None})
                continue
            qs = queries_for_entries(entries, list(alphabet), rng, tier, 30)
            qs += [''.join(rng.choice(alphabet) for _ in range(rng.randrange(0, 9))) for _ in range(10)]
            # histories: repeat and reorder queries on the same loaded database
            qs = qs + rng.sample(qs, min(len(qs), 10)) + qs[:5][::-1]
            d0 = structure_digest(db)
            for q in qs:
                compare(db, roots, q, 'gen:%s:%d' % (shard['name'], i), viols, stats, text=text)
                evals += 2
                if structure_digest(db) != d0:
                    add(viols, 'C10|gen|lookup-mutates-registry',
                        'after info(%r) the loaded registry differs from what was read (digest %r -> %r)' % (q, d0, structure_digest(db)),
                        {'label': 'gen', 'query': q, 'text': text})
                    break
                # overlap classification for the evidence
                lens = set()
                cnt = {}
                for e in roots:
                    for lo, hi in e.ranges:
                        if len(q) >= len(lo) and lo <= q[:len(lo)] <= hi:
                            lens.add(len(lo))
                            cnt[len(lo)] = cnt.get(len(lo), 0) + 1
                if len(lens) > 1:
                    counters['shorter_wins_queries'] += 1
                if lens and cnt[min(lens)] > 1:
                    counters['equal_length_overlap_queries'] += 1
            counters['queries'] += len(qs)
            if i == 0:
                samples.append({'registry': text, 'query': qs[0], 'info': C.jsonable(db.info(qs[0]))})
    return {'evaluations': evals, 'nontrivial': len(stats['nontrivial']), 'violations': list(viols.values()),
            'samples': samples, 'counters': counters, 'sets': {'files': [shard['db']] if shard['kind'] == 'file' else []}}


def finish(agg, tier):
    out = {}
    if len(agg['sets'].get('files', ())) < 10:
        out['inconclusive'] = ['fewer than 10 shipped registries were reached']
    if agg['counters'].get('equal_length_overlap_queries', 0) < 10 or agg['counters'].get('shorter_wins_queries', 0) < 10:
        out.setdefault('inconclusive', []).append('overlap cases were not exercised')
    return out


def replay(w):
    from stdnum import numdb
    viols = {}
    stats = {'nontrivial': set()}
    if w.get('text'):
        roots, _ = D.parse_text(w['text'])
        db = numdb.read(io.StringIO(w['text']))
        # re-run the whole recorded history on a fresh database: order matters for stateful defects
        d0 = structure_digest(db)
        compare(db, roots, w['query'], w['label'], viols, stats, text=w['text'])
        if structure_digest(db) != d0:
            add(viols, 'C10|gen|lookup-mutates-registry', 'info(%r) changed the loaded registry' % w['query'], w)
        if not viols:
            rng = C.rng_for('C10', 'replay')
            _roots, entries = D.parse_text(w['text'])
            for q in queries_for_entries(entries, D.alphabet_of(entries), rng, 'quick', 200) * 2 + [w['query']]:
                compare(db, roots, q, w['label'], viols, stats, text=w['text'])
    elif w['label'].startswith('locale:'):
        locale_work(viols)
    else:
        name = w['label'].split(':', 1)[1]
        path = dict(D.dat_files())[name]
        roots, _ = D.parse_text(open(path, encoding='utf-8').read(), collect_errors=[])
        compare(numdb.get(name), roots, w['query'], w['label'], viols, stats)
    return list(viols.values())
