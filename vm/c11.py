"""C11 - every shipped registry entry is well-formed and usable by its consumer (DESIGN 3, C11).

Exhaustive sweep (finite): every non-comment line of every registry file under stdnum/.
"""

import io
import re

from vm import common as C
from vm import datfile as D
from vm import gs1gen

META = {
    'level': 'exploration',
    'exhaustive': True,
    'rule': ('every non-comment line of every .dat file: (1) strict independent line grammar with no residue; (2) the '
             'strict parse equals what numdb.read() produced for that entry (ranges, properties, nesting); (3) lookups of '
             'low / high / a middle value along the entry\'s parent path through the real info() return this entry\'s '
             'properties; (4) a consumer-level witness built from the entry works in the module that consumes the file '
             '(IBAN structure -> account with own mod-97 check digits accepted by iban.validate; GS1 AI -> value fitting '
             'its format encodes and decodes; ISBN range -> five-part split; bank/location/office/OUI/NACE/CFI/EIN entries '
             '-> returned by the consumer). distinct_nontrivial = distinct (file, line) entries checked'),
    'assumptions': ['witness values are built by the harness from the entry itself'],
}


THREAD_REPLICA = False   # this monitor uses a process-wide sys.monitoring probe / has its own thread trials


def shards(tier):
    out = []
    for name, path in D.dat_files():
        n = sum(1 for l in open(path, encoding='utf-8') if l.strip() and l[0] != '#')
        k = max(1, min(16, n // 2000))
        for i in range(k):
            out.append({'name': '%s#%d' % (name, i), 'db': name, 'path': path, 'part': i, 'parts': k})
    return out


def entry_key(e):
    """Stable name of a registry entry: its path of first-range values plus its own text (no line numbers)."""
    chain = []
    p = e
    while p is not None:
        chain.append(p.text.strip().split(' ')[0])
        p = p.parent
    first_prop = ''
    if e.props:
        first_prop = ' %s=%s' % e.props[0]
    return '/'.join(reversed(chain)) + first_prop[:40]


def add(viols, sig, what, witness):
    if sig in viols:
        viols[sig]['count'] += 1
    else:
        viols[sig] = {'sig': sig, 'what': what, 'count': 1, 'witness': witness}


def own_mod97_check(cc, bban):
    s = ''.join(str(int(c, 36)) if c.isalpha() else c for c in (bban + cc + '00'))
    return '%02d' % (98 - int(s) % 97)


def bban_witness(structure, rng):
    out = ''
    for m in re.finditer(r'(\d+)(!?)([nace])', structure):
        n, _fixed, kind = int(m.group(1)), m.group(2), m.group(3)
        pool = {'n': '0123456789', 'a': 'ABCDEFGHIJKLMNOPQRSTUVWXYZ', 'c': '0123456789ABCDEFGHIJKLMNOPQRSTUVWXYZ', 'e': ' '}[kind]
        out += ''.join(rng.choice(pool) for _ in range(n))
    covered = ''.join(m.group(0) for m in re.finditer(r'\d+!?[nace]', structure))
    return out, covered == structure


def path_prefix(e, rng):
    chain = []
    p = e.parent
    while p is not None:
        chain.append(p)
        p = p.parent
    prefix = ''
    for anc in reversed(chain):
        prefix += anc.ranges[0][0]
    return prefix, len(chain)


def cfi_code(e):
    """A CFI code that selects value entry e: ancestors that are attribute lines (A-Z a=...) get a sibling
    value of theirs (or X when the position has no values), later positions are X."""
    chain = []
    p = e
    while p is not None:
        chain.append(p)
        p = p.parent
    chain.reverse()
    code = ''
    for node in chain[:-1]:
        if node.ranges[0][0] != node.ranges[0][1]:      # an A-Z attribute line: pick a value for that position
            sibs = node.parent.children if node.parent else []
            vals = [s for s in sibs if s is not node and s.props and dict(s.props).get('v')]
            code += vals[0].ranges[0][0] if vals else 'X'
        else:
            code += node.ranges[0][0]
    code += e.ranges[0][0]
    return (code + 'XXXXXX')[:6]


def consumer_check(db, e, low, high, rng, viols, counters):
    """Consumer-level witness for one entry.  Returns number of library calls."""
    props = dict(e.props)
    depth = 0
    p = e.parent
    while p is not None:
        depth += 1
        p = p.parent
    w = {'file': db, 'line': e.lineno, 'text': e.text[:160]}

    def fail(kind, what):
        add(viols, 'C11|%s|consumer|%s|%s' % (db, kind, entry_key(e)), '%s line %d (%s): %s' % (db, e.lineno, e.text[:80], what), w)

    try:
        if db == 'iban' and 'bban' in props:
            from stdnum import iban
            bban, complete = bban_witness(props['bban'], rng)
            if not complete:
                fail('iban-structure-token', 'structure %r contains tokens outside n/a/c' % props['bban'])
                return 0
            number = low + own_mod97_check(low, bban) + bban
            o = C.outcome(iban.validate, number, check_country=False)
            counters['consumer_witnesses'] += 1
            if o[0] != 'ok':
                fail('iban-witness-rejected', 'account %r built from structure %r with correct check digits is rejected (%s)' % (number, props['bban'], o[1]))
            return 1
        if db == 'gs1_ai' and 'format' in props:
            from stdnum import gs1_128
            n = 0
            for shape in ('min', 'max', 'random'):
                try:
                    raw = gs1gen.raw_value(props['format'], props.get('type', 'str'), rng, shape, max_decimals=2)
                except gs1gen.UnsupportedFormat:
                    fail('gs1-format-not-understood', 'format %r / type %r is outside the format grammar' % (props['format'], props.get('type')))
                    return n
                if low in ('01', '02'):
                    from stdnum import ean
                    raw = raw[:13] + ean.calc_check_digit(raw[:13])
                if low == '8007':
                    raw = 'NL91ABNA0417164300'
                o = C.outcome(gs1_128.info, low + raw)
                n += 1
                counters['consumer_witnesses'] += 1
                if o[0] != 'ok':
                    fail('gs1-decode-fails', 'element %r (format %r) cannot be decoded: %s' % (low + raw, props['format'], o[1:3]))
                    return n
                if list(o[1]) != [low]:
                    fail('gs1-decode-wrong-ai', 'element %r decodes to identifiers %r' % (low + raw, list(o[1])))
                    return n
                o2 = C.outcome(gs1_128.encode, o[1])
                n += 1
                if o2[0] != 'ok':
                    fail('gs1-encode-fails', 'decoded value %r of AI %s cannot be encoded: %s' % (o[1], low, o2[1:3]))
                    return n
                o3 = C.outcome(gs1_128.info, o2[1])
                if o3 != o:
                    fail('gs1-roundtrip-differs', 'AI %s: %r decodes to %r, re-encodes to %r, decodes to %r' % (low, low + raw, o[1], o2[1], o3[1:2]))
            return n
        if db == 'isbn' and depth == 2:
            from stdnum import isbn, ean
            prefix, _d = path_prefix(e, rng)
            n = 0
            for val in (low, high):
                body = prefix + val
                if len(body) > 11:
                    fail('isbn-range-too-long', 'prefix+group+publisher %r leaves no room for an item number' % body)
                    continue
                number = (body + '0' * 12)[:12]
                number += ean.calc_check_digit(number)
                o = C.outcome(isbn.split, number)
                n += 1
                counters['consumer_witnesses'] += 1
                if o[0] != 'ok' or len(o[1]) != 5 or not all(o[1]) or ''.join(o[1]) != number:
                    fail('isbn-split-not-five-parts', 'split(%r) = %r' % (number, o[1:2]))
                elif o[1][2] != val:
                    fail('isbn-split-wrong-publisher', 'split(%r) = %r, expected publisher part %r' % (number, o[1], val))
                if C.outcome(isbn.validate, number)[0] != 'ok':
                    fail('isbn-witness-rejected', 'validate(%r) rejects a number inside the range' % number)
            return n
        if db == 'imsi':
            from stdnum import imsi
            prefix, d = path_prefix(e, rng)
            child = e.children[0].ranges[0][0] if e.children else ''
            number = (prefix + low + child + '0' * 15)[:15]
            o = C.outcome(imsi.info, number)
            counters['consumer_witnesses'] += 1
            if o[0] == 'exc':
                fail('imsi-info-raises-%s' % o[1], 'imsi.info(%r) raised %s' % (number, o[1]))
            elif o[0] == 'ok':
                for k, v in props.items():
                    if o[1].get(k) != v and not (depth == 0 and k in o[1]):
                        fail('imsi-info-misses-property', 'imsi.info(%r) lacks %s=%r (got %r)' % (number, k, v, o[1].get(k)))
                        break
            ov = C.outcome(imsi.validate, number)
            if ov[0] != 'ok':
                fail('imsi-validate-rejects-entry', 'imsi.validate(%r) (%s) does not accept a number of a registered network' % (number, ov[1]))
            return 2
        if db == 'oui' and 'o' in props:
            from stdnum import mac
            prefix, d = path_prefix(e, rng)
            hexs = (prefix + low + '0' * 12)[:12]
            number = ':'.join(hexs[i:i + 2] for i in range(0, 12, 2))
            o = C.outcome(mac.get_manufacturer, number)
            counters['consumer_witnesses'] += 1
            if o[0] != 'ok':
                fail('oui-manufacturer-lookup-fails', 'mac.get_manufacturer(%r): %s' % (number, o[1:3]))
            elif o[1] != props['o'].replace('%', '"'):
                fail('oui-manufacturer-differs', 'mac.get_manufacturer(%r) = %r, entry says %r' % (number, o[1], props['o']))
            # the validator under its documented option: every address of a registered block is accepted (all blocks
            # with the multicast or locally-administered bit set, one in sixteen of the others)
            special = int(hexs[1], 16) & 3
            if special or e.lineno % 16 == 0:
                for opt in (True, None):
                    ov = C.outcome(mac.validate, number, validate_manufacturer=opt)
                    if ov[0] != 'ok':
                        fail('oui-validate-rejects-entry', 'mac.validate(%r, validate_manufacturer=%r) (%s) rejects an address of a registered block' % (number, opt, ov[1]))
                        break
                counters['oui_validate_with_option'] = counters.get('oui_validate_with_option', 0) + 1
                return 3
            return 1
        simple = {
            'at/fa': ('at.tin', 'info', lambda v: (v + '0' * 9)[:9]),
            'at/postleitzahl': ('at.postleitzahl', 'info', lambda v: v),
            'be/banks': ('be.iban', 'info', lambda v: 'BE00' + (v + '0' * 12)[:12]),
            'cn/loc': ('cn.ric', 'get_birth_place', lambda v: (v + '0' * 18)[:18]),
            'my/bp': ('my.nric', 'get_birth_place', lambda v: '000000' + v + '0000'),
            'us/ein': ('us.ein', 'get_campus', lambda v: (v + '0' * 9)[:9]),
            'cz/banks': ('cz.bankaccount', 'info', lambda v: '19-2000145399/' + v),
            'eu/nace': ('eu.nace', 'info', None),
            'cfi': ('cfi', 'info', None),
            'nz/banks': ('nz.bankaccount', 'info', None),
            'id/loc': ('id.nik', '_check_registration_place', None),
            'isil': ('isil', '_is_known_agency', None),
        }
        if db in simple:
            modname, fname, build = simple[db]
            mod = C.get_module(modname)
            prefix, d = path_prefix(e, rng)
            val = prefix + low
            if db == 'eu/nace':
                number = val
            elif db == 'cfi':
                number = cfi_code(e) if 'v' in props else None
            elif db == 'nz/banks':
                number = (val + '0' * 16)[:16] if depth == 1 else None
            elif db == 'id/loc':
                number = (val + '0' * 16)[:16] if len(val) == 4 else None
            elif db == 'isil':
                number = val.rstrip('$') if val.endswith('$') else None
            else:
                number = build(val) if depth == 0 else None
            if number is None:
                return 0
            if db == 'nz/banks':
                # some account of the branch must validate (the check digit rule depends on the bank: search)
                found = False
                tries = 0
                for base in range(0, 400):
                    cand = val[:6] + '%07d' % ((base * 7919 + 13) % 10000000) + '000'
                    tries += 1
                    if C.outcome(mod.validate, cand)[0] == 'ok':
                        found = True
                        break
                if not found:
                    fail('validate-rejects-every-account-of-branch', 'nz.bankaccount.validate() accepted none of %d accounts of the registered branch %s-%s' % (tries, val[:2], val[2:6]))
            o = C.outcome(getattr(mod, fname), number)
            counters['consumer_witnesses'] += 1
            if o[0] == 'exc':
                fail('%s-raises-%s' % (fname, o[1]), '%s.%s(%r) raised %s (%s)' % (modname, fname, number, o[1], o[3]))
            elif o[0] == 've':
                fail('%s-rejects-entry' % fname, '%s.%s(%r) raised %s for a registered entry' % (modname, fname, number, o[1]))
            else:
                res = o[1]
                if isinstance(res, dict) and db == 'id/loc' and depth > 0:
                    if not res:
                        fail('%s-empty' % fname, '%s.%s(%r) returned nothing' % (modname, fname, number))
                elif isinstance(res, dict) and db == 'cfi':
                    if props.get('v') not in res.values():
                        fail('%s-misses-value' % fname, '%s.%s(%r) = %r lacks the value %r' % (modname, fname, number, res, props.get('v')))
                elif isinstance(res, dict):
                    for k, v in props.items():
                        if res.get(k) != v:
                            fail('%s-misses-property' % fname, '%s.%s(%r) = %r lacks %s=%r' % (modname, fname, number, res, k, v))
                            break
                elif isinstance(res, str):
                    if res not in props.values():
                        fail('%s-returns-other-entry' % fname, '%s.%s(%r) = %r, entry has %r' % (modname, fname, number, res, props))
                elif res is False:
                    fail('%s-false-for-entry' % fname, '%s.%s(%r) is False' % (modname, fname, number))
            return 1
    except Exception as ex:  # noqa: B902
        fail('harness-error-%s' % type(ex).__name__, repr(ex))
    return 0


def lib_entries(prefixes, depth=0, out=None, seen=None):
    """Flatten the library's tree in file order: (depth, low, high, props)."""
    if out is None:
        out = []
        seen = set()
    for length, low, high, props, children in prefixes:
        out.append((depth, low, high, dict(props), id(children)))
    done = set()
    for length, low, high, props, children in prefixes:
        if id(children) in done:
            continue
        done.add(id(children))
    return out


def work(shard, tier):
    from stdnum import numdb
    db = shard['db']
    text = open(shard['path'], encoding='utf-8').read()
    rng = C.rng_for('C11', db)
    viols = {}
    counters = {'lines': 0, 'entries': 0, 'ranges': 0, 'reachability_lookups': 0, 'consumer_witnesses': 0, 'grammar_errors': 0}
    errors = []
    roots, entries = D.parse_text(text, collect_errors=errors)
    lines_total = sum(1 for l in text.splitlines() if l.strip() and l[0] != '#')
    evals = 0
    if shard['part'] == 0:
        counters['lines'] = lines_total
        for ge in errors:
            counters['grammar_errors'] += 1
            reason = re.sub(r"'[^']*'|\d+", '', ge.reason).strip()
            add(viols, 'C11|%s|grammar|%s|%s' % (db, reason, ' '.join(ge.text.split()[:3])[:50]), '%s line %d: %s: %r' % (db, ge.lineno, ge.reason, ge.text[:120]),
                {'file': db, 'line': ge.lineno, 'text': ge.text[:200]})
        # (2) compare the strict parse with the library's reader, entry by entry in file order
        try:
            libdb = numdb.read(io.StringIO(text))
        except Exception as ex:  # noqa: B902
            add(viols, 'C11|%s|reader-raises|%s' % (db, type(ex).__name__), 'numdb.read(%s) raised %r' % (db, ex), {'file': db, 'line': 0, 'text': ''})
            libdb = None
        if libdb is not None:
            def walk(level_entries, prefixes, depth):
                flat = []
                for e in level_entries:
                    for low, high in e.ranges:
                        flat.append((e, low, high))
                if len(flat) != len(prefixes):
                    add(viols, 'C11|%s|reader-disagrees|entry-count' % db,
                        '%s depth %d: strict parse has %d ranges under one parent, numdb.read has %d (near line %d)' % (
                            db, depth, len(flat), len(prefixes), level_entries[0].lineno if level_entries else 0),
                        {'file': db, 'line': level_entries[0].lineno if level_entries else 0, 'text': ''})
                    return
                for (e, low, high), item in zip(flat, prefixes):
                    if (item[1], item[2]) != (low, high) or item[0] != len(low):
                        add(viols, 'C11|%s|reader-disagrees|range' % db, '%s line %d: numdb.read has range %r-%r (len %r), file says %r-%r' % (
                            db, e.lineno, item[1], item[2], item[0], low, high), {'file': db, 'line': e.lineno, 'text': e.text[:200]})
                    elif e.props is not None and dict(item[3]) != dict(e.props):
                        add(viols, 'C11|%s|reader-disagrees|properties' % db, '%s line %d: numdb.read has properties %r, file says %r' % (
                            db, e.lineno, dict(item[3]), dict(e.props)), {'file': db, 'line': e.lineno, 'text': e.text[:200]})
                done = set()
                for (e, low, high), item in zip(flat, prefixes):
                    if id(e) in done:
                        continue
                    done.add(id(e))
                    if e.children or item[4]:
                        walk(e.children, item[4], depth + 1)
            walk(roots, libdb.prefixes, 0)
            evals += len(entries)
    # (3) reachability and (4) consumers, on this shard's slice of the entries
    realdb = numdb.get(db)
    mine = entries[shard['part']::shard['parts']]
    samples = []
    for e in mine:
        counters['entries'] += 1
        if e.props is None:
            continue
        prefix, depth = path_prefix(e, rng)
        for (low, high) in e.ranges:
            counters['ranges'] += 1
            unreachable = False
            mids = {low, high}
            if low != high:
                mids.add(''.join(rng.choice((a, b)) if a != b else a for a, b in zip(low, high)) if low[0] == high[0] else low)
            for val in sorted(mids):
                if not (low <= val <= high):
                    continue
                q = prefix + val
                o = C.outcome(realdb.info, q)
                evals += 1
                counters['reachability_lookups'] += 1
                ok = o[0] == 'ok' and len(o[1]) > depth and o[1][depth][0] == val and all(o[1][depth][1].get(k) == v for k, v in e.props)
                if not ok:
                    unreachable = True
                    why = 'lookup-raises' if o[0] != 'ok' else 'shadowed-or-split-differently' if (len(o[1]) <= depth or o[1][depth][0] != val) else 'property-overridden-by-another-entry'
                    add(viols, 'C11|%s|entry-unreachable|%s|%s' % (db, why, entry_key(e)),
                        '%s line %d (%s): info(%r) = %r does not return this entry\'s properties %r at part %d' % (
                            db, e.lineno, e.text[:60], q, C.jsonable(o[1]) if o[0] == 'ok' else o[1:3], dict(e.props), depth),
                        {'file': db, 'line': e.lineno, 'text': e.text[:200], 'query': q})
            if not unreachable:
                evals += consumer_check(db, e, low, high, rng, viols, counters)
        if len(samples) < 1:
            samples.append({'file': db, 'line': e.lineno, 'entry': e.text[:100]})
    return {'evaluations': max(evals, 1), 'nontrivial': counters['entries'], 'violations': list(viols.values()),
            'samples': samples, 'counters': counters, 'sets': {'files': [db]}}


def finish(agg, tier):
    out = {}
    if len(agg['sets'].get('files', ())) < 17:
        out['inconclusive'] = ['only %d registry files found' % len(agg['sets'].get('files', ()))]
    if agg['counters'].get('entries', 0) < 0.95 * agg['counters'].get('lines', 1):
        out.setdefault('inconclusive', []).append('entries checked (%d) do not cover the lines (%d)' % (
            agg['counters'].get('entries', 0), agg['counters'].get('lines', 0)))
    return out


def replay(w):
    # the sweep is exhaustive and cheap: re-run the file the witness belongs to
    viols = []
    path = dict(D.dat_files()).get(w['file'])
    if not path:
        return [{'sig': 'C11|%s|file-missing' % w['file'], 'what': 'file gone'}]
    r = work({'name': w['file'] + '#0', 'db': w['file'], 'path': path, 'part': 0, 'parts': 1}, 'quick')
    for v in r['violations']:
        if v['witness'].get('line') == w.get('line') or True:
            viols.append(v)
    return viols
