"""C08 - conversions between formats preserve validity and identity (DESIGN 3, C08).

Relational monitor driven by a conversion table written from the statement: source module, conversion, target
validator, embedding predicate, inverse, documented refusals.
"""

from vm import common as C

META = {
    'level': 'exploration',
    'rule': ('conversion table (ISBN-10/13, ISMN-10/13, ISSN->EAN x issue codes 00..99, CUSIP/SEDOL/WKN/natid->ISIN, '
             'CCC<->IBAN, kontonr<->IBAN, ACN->ABN, SIRET->SIREN->TVA, CUI->RUC->DNI, GSTIN->PAN, AIC base10<->base32, '
             'MEID hex<->dec, German tax number regional<->national per region, old->new Irish VAT, ISAN with/without '
             'check characters, IMEI 14->15, MAC->EUI-48, bank account->BIC) x corpus + synthesised valid source numbers '
             'x presentations {compact, format() output, space<->hyphen exchanged, surrounding whitespace, lower case}. '
             'Oracle: the real target validate() accepts, the embedding predicate holds on canonical forms, the paired '
             'conversion returns the source. distinct_nontrivial = distinct (row, source canonical number, presentation '
             'class) cases whose conversion returned'),
    'assumptions': ['source validity judged by the library'],
}


def canon(modname, x, **kw):
    o = C.outcome(C.get_module(modname).validate, x, **kw)
    return o[1] if o[0] == 'ok' and isinstance(o[1], str) else None


def presentations(modname, v, rng):
    mod = C.get_module(modname)
    out = [('compact', v)]
    if hasattr(mod, 'format'):
        o = C.outcome(mod.format, v)
        if o[0] == 'ok' and isinstance(o[1], str) and o[1] != v:
            f = o[1]
            out.append(('formatted', f))
            if ' ' in f or '-' in f:
                out.append(('exchanged', f.replace(' ', '\0').replace('-', ' ').replace('\0', '-')))
            out.append(('formatted-lower', f.lower()))
    if modname == 'isbn' and len(v) == 10 and v.startswith('0'):
        out.append(('sbn', v[1:]))            # nine-digit Standard Book Number
        out.append(('sbn-hyphenated', v[1:4] + '-' + v[4:9] + '-' + v[9]))
    out.append(('whitespace', '  ' + v + '\t'))
    out.append(('lower', v.lower()))
    # every separator in groups of three and of two ("whether or not the input carries separators"); kept below only
    # if the source module reads them as the same number
    bare = ''.join(ch for ch in v if ch.isalnum())
    for sepch in ('.', '-', ' ', '/', ':'):
        for g in (3, 2, 4):
            if len(bare) > g:
                out.append(('grouped' + sepch, sepch.join(bare[i:i + g] for i in range(0, len(bare), g))))
    if bare[:1].isdigit() and len(bare) < 16:
        out.append(('zero-filled', bare.zfill(len(bare) + 4)))
        out.append(('zero-filled', '0000' + '.' + bare))
    # keep only presentations the source module itself accepts as the same number
    c = canon(modname, v)
    return [(k, x) for k, x in out if canon(modname, x) == c and c is not None]


def rows():
    """The conversion table.  Each row: dict(name, src, sources(rng, n), convert(x) -> value, check(src_canon, x, res) -> problem or None)."""
    M = C.get_module
    R = []

    def isbn10(v):
        return len(v) == 10

    def chk_isbn13(c, x, res):
        r = canon('isbn', res)
        if r is None or len(r) != 13:
            return 'result %r is not a valid ISBN-13' % (res,)
        if r[3:12] != c[:9] or not r.startswith('978'):
            return 'ISBN-13 %r does not embed the ISBN-10 %r' % (r, c)
        back = C.outcome(M('isbn').to_isbn10, res)
        if back[0] != 'ok' or canon('isbn', back[1]) != c:
            return 'to_isbn10(to_isbn13(%r)) = %r, not the source' % (x, back[1:2])
    R.append(dict(name='isbn.to_isbn13', src='isbn', keep=isbn10, convert=lambda x: M('isbn').to_isbn13(x), check=chk_isbn13))

    def chk_isbn10(c, x, res):
        r = canon('isbn', res)
        if r is None or len(r) != 10:
            return 'result %r is not a valid ISBN-10' % (res,)
        if r[:9] != c[3:12]:
            return 'ISBN-10 %r does not embed digits of %r' % (r, c)
        back = C.outcome(M('isbn').to_isbn13, res)
        if back[0] != 'ok' or canon('isbn', back[1]) != c:
            return 'to_isbn13(to_isbn10(%r)) = %r, not the source' % (x, back[1:2])
    R.append(dict(name='isbn.to_isbn10', src='isbn', keep=lambda v: len(v) == 13 and v.startswith('978'),
                  convert=lambda x: M('isbn').to_isbn10(x), check=chk_isbn10,
                  trigger=lambda c, x: 'separator-inside-the-978-prefix' if not x.strip().startswith('978') else 'prefix-written-together'))
    R.append(dict(name='isbn.to_isbn10[979 refusal]', src='isbn', keep=lambda v: len(v) == 13 and v.startswith('979'),
                  convert=lambda x: M('isbn').to_isbn10(x), refusal=True, check=lambda c, x, res: 'a 979 ISBN-13 has no ISBN-10 but got %r' % (res,)))

    def chk_ismn13(c, x, res):
        r = canon('ismn', res)
        if r is None or len(r) != 13:
            return 'result %r is not a valid ISMN-13' % (res,)
        if r[:4] != '9790' or r[4:12] != c[1:9]:
            return 'ISMN-13 %r does not embed %r' % (r, c)
    R.append(dict(name='ismn.to_ismn13', src='ismn', keep=lambda v: len(v) == 10, convert=lambda x: M('ismn').to_ismn13(x), check=chk_ismn13))

    for code in ['00', '01', '09', '10', '57', '99'] + ['%02d' % i for i in range(2, 99, 7)]:
        def chk_ean(c, x, res, code=code):
            r = canon('ean', res)
            if r is None or len(r) != 13:
                return 'result %r is not a valid EAN-13' % (res,)
            if r[:3] != '977' or r[3:10] != c[:7] or r[10:12] != code:
                return 'EAN %r does not embed ISSN %r / issue code %r' % (r, c, code)
        R.append(dict(name='issn.to_ean[%s]' % code, src='issn', convert=lambda x, code=code: M('issn').to_ean(x, issue_code=code), check=chk_ean))

    def mk_isin(cc):
        def chk(c, x, res):
            r = canon('isin', res)
            if r is None:
                return 'result %r is not a valid ISIN' % (res,)
            if r[:2] != cc or r[2:11] != c.zfill(9):
                return 'ISIN %r does not embed %s %r' % (r, cc, c)
        return chk
    def special(c, x):
        return 'private-placement-character' if any(ch in '*@#' for ch in x) else 'alphanumeric'
    R.append(dict(name='cusip.to_isin', src='cusip', convert=lambda x: M('cusip').to_isin(x), check=mk_isin('US'), trigger=special))
    R.append(dict(name='gb.sedol.to_isin', src='gb.sedol', convert=lambda x: M('gb.sedol').to_isin(x), check=mk_isin('GB')))
    R.append(dict(name='de.wkn.to_isin', src='de.wkn', convert=lambda x: M('de.wkn').to_isin(x), check=mk_isin('DE')))
    R.append(dict(name='isin.from_natid[US]', src='cusip', convert=lambda x: M('isin').from_natid('us', x), check=mk_isin('US'), trigger=special))
    R.append(dict(name='isin.from_natid[GB]', src='gb.sedol', convert=lambda x: M('isin').from_natid('GB', x), check=mk_isin('GB')))
    R.append(dict(name='isin.from_natid[DE]', src='de.wkn', convert=lambda x: M('isin').from_natid('de', x), check=mk_isin('DE')))

    def mk_iban(natmod, ibanmod, back):
        def chk(c, x, res):
            r = canon(ibanmod, res)
            if r is None or canon('iban', res) is None:
                return 'result %r is not a valid IBAN (%s / generic)' % (res, ibanmod)
            if not r.endswith(c.zfill(len(c))):
                return 'IBAN %r does not embed account %r' % (r, c)
            b = C.outcome(getattr(M(ibanmod), back), res)
            if b[0] != 'ok' or canon(natmod, b[1]) != c:
                return '%s(%r) = %r, not the source %r' % (back, res, b[1:2], c)
        return chk
    R.append(dict(name='es.ccc.to_iban', src='es.ccc', convert=lambda x: M('es.ccc').to_iban(x), check=mk_iban('es.ccc', 'es.iban', 'to_ccc')))
    R.append(dict(name='no.kontonr.to_iban', src='no.kontonr', convert=lambda x: M('no.kontonr').to_iban(x), check=mk_iban('no.kontonr', 'no.iban', 'to_kontonr'),
                  trigger=lambda c, x: 'short-or-blank-padded-account' if sum(ch.isdigit() for ch in x) < 11 or x != x.strip() else 'full-length-account'))

    def chk_iban_to(natmod):
        def chk(c, x, res):
            r = canon(natmod, res)
            if r is None:
                return 'result %r is not a valid %s' % (res, natmod)
            if not c.endswith(r):
                return '%s %r is not the account part of IBAN %r' % (natmod, r, c)
            # the paired conversion leads back to the IBAN
            b = C.outcome(M(natmod).to_iban, res)
            if c[2:4] in ('00', '01', '99'):
                return None    # alias check digits (known finding under C05/C07): the generator never produces them
            if b[0] != 'ok' or canon('iban', b[1]) != c:
                return 'to_iban(%r) = %r does not lead back to the IBAN %r' % (res, b[1:2], c)
        return chk

    def no_postgiro_ibans(rng):
        # Norwegian IBANs of 7-digit (postgiro) accounts: bank code 0000
        out = []
        for v in C.corpus('no.kontonr', limit=40, rng=rng) + C.synth_valid('no.kontonr', 20, rng):
            k = canon('no.kontonr', v)
            if k and len(k) == 7:
                bban = '0000' + k
                out.append('NO' + M('iban').calc_check_digits('NO00' + bban) + bban)
        return out
    R.append(dict(name='es.iban.to_ccc', src='es.iban', convert=lambda x: M('es.iban').to_ccc(x), check=chk_iban_to('es.ccc')))
    R.append(dict(name='no.iban.to_kontonr', src='no.iban', extra=no_postgiro_ibans, convert=lambda x: M('no.iban').to_kontonr(x), check=chk_iban_to('no.kontonr')))

    def chk_abn(c, x, res):
        r = canon('au.abn', res)
        if r is None:
            return 'result %r is not a valid ABN' % (res,)
        if r[2:] != c:
            return 'ABN %r does not embed ACN %r' % (r, c)
    R.append(dict(name='au.acn.to_abn', src='au.acn', convert=lambda x: M('au.acn').to_abn(x), check=chk_abn))

    def chk_siren(c, x, res):
        r = canon('fr.siren', res)
        if r is None:
            return 'result %r is not a valid SIREN' % (res,)
        if r != c[:9]:
            return 'SIREN %r is not the first 9 digits of SIRET %r' % (r, c)
    R.append(dict(name='fr.siret.to_siren', src='fr.siret', convert=lambda x: M('fr.siret').to_siren(x), check=chk_siren))

    def chk_tva(c, x, res):
        r = canon('fr.tva', res)
        if r is None:
            return 'result %r is not a valid TVA number' % (res,)
        if r[-9:] != c[:9]:
            return 'TVA %r does not embed SIREN %r' % (r, c[:9])
    R.append(dict(name='fr.siret.to_tva', src='fr.siret', convert=lambda x: M('fr.siret').to_tva(x), check=chk_tva))
    R.append(dict(name='fr.siren.to_tva', src='fr.siren', convert=lambda x: M('fr.siren').to_tva(x), check=chk_tva))

    def chk_ruc(c, x, res):
        r = canon('pe.ruc', res)
        if r is None:
            return 'result %r is not a valid RUC' % (res,)
        if r[:2] != '10' or r[2:10] != c[:8]:
            return 'RUC %r does not embed CUI %r' % (r, c)
        b = C.outcome(M('pe.ruc').to_dni, res)
        if b[0] != 'ok' or b[1] != c[:8]:
            return 'to_dni(to_ruc(%r)) = %r, not %r' % (x, b[1:2], c[:8])
    R.append(dict(name='pe.cui.to_ruc', src='pe.cui', convert=lambda x: M('pe.cui').to_ruc(x), check=chk_ruc))

    def chk_dni(c, x, res):
        if canon('pe.cui', res) is None or res != c[2:10]:
            return 'DNI %r is not digits 3-10 of RUC %r' % (res, c)
    R.append(dict(name='pe.ruc.to_dni', src='pe.ruc', keep=lambda v: v.startswith('10'), convert=lambda x: M('pe.ruc').to_dni(x), check=chk_dni))
    R.append(dict(name='pe.ruc.to_dni[refusal]', src='pe.ruc', keep=lambda v: not v.startswith('10'), convert=lambda x: M('pe.ruc').to_dni(x),
                  refusal=True, check=lambda c, x, res: 'a RUC not starting with 10 has no DNI but got %r' % (res,)))

    def chk_pan(c, x, res):
        r = canon('in_.pan', res)
        if r is None:
            return 'result %r is not a valid PAN' % (res,)
        if r != c[2:12]:
            return 'PAN %r is not characters 3-12 of GSTIN %r' % (r, c)
    R.append(dict(name='in_.gstin.to_pan', src='in_.gstin', convert=lambda x: M('in_.gstin').to_pan(x), check=chk_pan))

    def chk_b32(c, x, res):
        if canon('it.aic', res) is None:
            return 'base32 form %r is not a valid AIC' % (res,)
        b = C.outcome(M('it.aic').from_base32, res)
        if b[0] != 'ok' or canon('it.aic', b[1]) != canon('it.aic', M('it.aic').from_base32(c) if not c.isdigit() else c):
            return 'from_base32(to_base32(%r)) = %r' % (x, b[1:2])
    R.append(dict(name='it.aic.to_base32', src='it.aic', keep=lambda v: v.isdigit() and len(v) == 9, convert=lambda x: M('it.aic').to_base32(x), check=chk_b32))

    def chk_b10(c, x, res):
        if canon('it.aic', res) is None or not (res.isdigit() and len(res) == 9):
            return 'base10 form %r is not a valid 9-digit AIC' % (res,)
        b = C.outcome(M('it.aic').to_base32, res)
        if b[0] != 'ok' or b[1] != c:
            return 'to_base32(from_base32(%r)) = %r' % (x, b[1:2])
    R.append(dict(name='it.aic.from_base32', src='it.aic', keep=lambda v: len(v) == 6, convert=lambda x: M('it.aic').from_base32(x), check=chk_b10))

    def mk_meid(fmt):
        def chk(c, x, res):
            r = canon('meid', res)
            if r is None:
                return 'MEID in %s form %r is not valid' % (fmt, res)
            if r != c:
                return 'MEID %r in %s form %r validates to %r' % (c, fmt, res, r)
            rc = canon('meid', C.get_module('meid').format(x, format=fmt, add_check_digit=True), strip_check_digit=False)
            if rc is None:
                return 'MEID %r in %s form with check digit is not valid' % (x, fmt)
        return chk
    R.append(dict(name='meid.format[dec]', src='meid', convert=lambda x: M('meid').format(x, format='dec'), check=mk_meid('dec')))
    R.append(dict(name='meid.format[hex]', src='meid', convert=lambda x: M('meid').format(x, format='hex'), check=mk_meid('hex')))

    def mk_meid_keep(fmt):
        def conv(x):
            me = M('meid')
            shown = me.format(x, format=fmt, add_check_digit=True)
            return me.validate(shown, strip_check_digit=False)

        def chk(c, x, res):
            me = M('meid')
            if canon('meid', res) != c:
                return 'MEID %r shown in %s form with check digit validates (check digit kept) to %r which is not a valid spelling of it' % (c, fmt, res)
            again = C.outcome(me.validate, res, strip_check_digit=False)
            if again != ('ok', res):
                return 'MEID %r: validate(..., strip_check_digit=False) = %r is not valid when fed back (%r)' % (c, res, again[1:2])
        return conv, chk
    def mk_meid_cross(kind):
        def conv(x):
            me = M('meid')
            dec_cd = me.format(x, format='dec', add_check_digit=True)
            hex_cd = me.format(x, format='hex', add_check_digit=True)
            if kind == 'dec->hex':
                return me.format(dec_cd, format='hex')
            if kind == 'hex->dec':
                return me.format(hex_cd, format='dec')
            return me.compact(dec_cd, strip_check_digit=False)

        def chk(c, x, res):
            me = M('meid')
            r = C.outcome(me.validate, res, strip_check_digit=False)
            if r[0] != 'ok':
                return 'MEID %r converted %s with its check digit gives %r, which is not valid (%s)' % (c, kind, res, r[1])
            if canon('meid', res) != c:
                return 'MEID %r converted %s gives %r, a different number' % (c, kind, res)
        return conv, chk
    for kind in ('dec->hex', 'hex->dec', 'compact(dec)'):
        conv, chk = mk_meid_cross(kind)
        R.append(dict(name='meid[%s with check digit]' % kind, src='meid', convert=conv, check=chk))

    for fmt in ('dec', 'hex'):
        conv, chk = mk_meid_keep(fmt)
        R.append(dict(name='meid.validate[%s with check digit kept]' % fmt, src='meid', convert=conv, check=chk))

    def chk_stnr_country(c, x, res):
        if not (isinstance(res, str) and len(res) == 13 and canon('de.stnr', res) is not None):
            return 'national number %r is not a valid 13-digit tax number' % (res,)
        b = C.outcome(M('de.stnr').to_regional_number, res)
        if b[0] != 'ok' or b[1] != c:
            return 'to_regional_number(to_country_number(%r)) = %r, not %r' % (x, b[1:2], c)

    def stnr_country(x):
        st = M('de.stnr')
        regions = st.guess_regions(x)
        return st.to_country_number(x, regions[0])
    R.append(dict(name='de.stnr.to_country_number', src='de.stnr', keep=lambda v: len(v) in (10, 11), convert=stnr_country, check=chk_stnr_country))

    def chk_stnr_regional(c, x, res):
        if not (isinstance(res, str) and len(res) in (10, 11) and canon('de.stnr', res) is not None):
            return 'regional number %r is not a valid tax number' % (res,)
        regions = M('de.stnr').guess_regions(res)
        ok = False
        for r in regions:
            b = C.outcome(M('de.stnr').to_country_number, res, r)
            if b[0] == 'ok' and b[1] == c:
                ok = True
        if not ok:
            return 'no region turns the regional number %r back into %r' % (res, c)
    R.append(dict(name='de.stnr.to_regional_number', src='de.stnr', keep=lambda v: len(v) == 13, convert=lambda x: M('de.stnr').to_regional_number(x), check=chk_stnr_regional))

    def chk_ievat(c, x, res):
        r = canon('ie.vat', res)
        if r is None:
            return 'converted number %r is not valid' % (res,)
        if len(c) == 8 and not c[1].isdigit():
            if not (r[0] == '0' and r[1:6] == c[2:7] and r[6] == c[0] and r[7:] == c[7:]):
                return 'new-style %r does not carry the digits of old-style %r' % (r, c)
        elif r != c:
            return 'convert() changed a new-style number: %r -> %r' % (c, r)
        if C.get_module('ie.vat').convert(res) != res:
            return 'convert() is not idempotent on %r' % (res,)
    R.append(dict(name='ie.vat.convert', src='ie.vat', convert=lambda x: M('ie.vat').convert(x), check=chk_ievat))

    def chk_isan(c, x, res):
        full = canon('isan', res)
        if full is None:
            return 'ISAN with check characters %r is not valid' % (res,)
        if M('isan').compact(res, strip_check_digits=True) != M('isan').compact(c, strip_check_digits=True):
            return 'adding check characters changed the number: %r -> %r' % (c, res)
        if len(full) not in (17, 26):
            return 'ISAN %r with check characters has length %d' % (full, len(full))
    R.append(dict(name='isan.format[add_check_digits]', src='isan', convert=lambda x: M('isan').format(x, add_check_digits=True), check=chk_isan))
    R.append(dict(name='isan.validate[add_check_digits]', src='isan', convert=lambda x: M('isan').validate(x, add_check_digits=True), check=chk_isan))

    def chk_isan_strip(c, x, res):
        if canon('isan', res) is None or len(res) not in (16, 24):
            return 'ISAN without check characters %r is not valid / has length %d' % (res, len(res))
        again = C.outcome(M('isan').validate, res, add_check_digits=True)
        if again[0] != 'ok' or (len(c) in (17, 26) and again[1] != c):
            return 'stripping and re-adding check characters gives %r, not %r' % (again[1:2], c)
    R.append(dict(name='isan.validate[strip_check_digits]', src='isan', convert=lambda x: M('isan').validate(x, strip_check_digits=True), check=chk_isan_strip))

    def chk_imei(c, x, res):
        r = canon('imei', res)
        if r is None or len(r) != 15 or r[:14] != c[:14]:
            return 'IMEI with check digit %r is not a valid 15-digit number embedding %r' % (res, c[:14])
    R.append(dict(name='imei.format[add_check_digit]', src='imei', convert=lambda x: M('imei').format(M('imei').compact(x)[:14], add_check_digit=True), check=chk_imei))

    def chk_eui(c, x, res):
        if canon('mac', res) is None:
            return 'EUI-48 %r is not a valid MAC' % (res,)
    R.append(dict(name='mac.to_eui48', src='mac', convert=lambda x: M('mac').to_eui48(x), check=chk_eui))

    def chk_bic(c, x, res):
        if res is not None and canon('bic', res) is None:
            return 'BIC %r is not valid' % (res,)
    R.append(dict(name='be.iban.to_bic', src='be.iban', convert=lambda x: M('be.iban').to_bic(x), check=chk_bic))
    R.append(dict(name='cz.bankaccount.to_bic', src='cz.bankaccount', convert=lambda x: M('cz.bankaccount').to_bic(x), check=chk_bic))
    return R


THREAD_REPLICA = False   # cold-start races of these modules resolve during corpus harvesting; C13's trials own them


def shards(tier):
    names = [r['name'] for r in rows()]
    n = 16 if tier == 'quick' else 32
    return [{'name': 'rows%02d' % i, 'rows': part} for i, part in enumerate(C.chunk(names, n)) if part]


def add(viols, sig, what, witness):
    if sig in viols:
        viols[sig]['count'] += 1
    else:
        viols[sig] = {'sig': sig, 'what': what, 'count': 1, 'witness': witness}


def trig(row, c, x):
    """Rows with a recorded finding name the input class, so that the finding cannot hide another failure of the row."""
    return ('|' + row['trigger'](c, x)) if row.get('trigger') else ''


def run_row(row, tier, rng, viols, keys, counters):
    from stdnum.exceptions import ValidationError
    evals = 0
    src = row['src']
    n = 12 if tier == 'quick' else 600
    base = C.corpus(src, limit=n, rng=rng)
    nums = []
    extra = C.synth_alphabet(src, rng, k=2 if tier == 'quick' else 6) + C.synth_digits_only(src, rng, k=4 if tier == 'quick' else 20)
    extra = extra + C.synth_field_extremes(src, rng, k=1 if tier == 'quick' else 3, raw=False, cap=200 if tier == 'quick' else 3000)
    if row.get('extra'):
        extra = extra + row['extra'](rng)
    for v in base + C.synth_valid(src, n, rng, base=base, leading_zero_bias=0.5) + extra:
        c = canon(src, v)
        if c is not None and c not in nums and row.get('keep', lambda v: True)(c):
            nums.append(c)
    for c in nums:
        for pclass, x in presentations(src, c, rng):
            evals += 1
            try:
                res = row['convert'](x)
            except ValidationError as e:
                if row.get('refusal'):
                    keys.add((row['name'], c, pclass))
                    counters['documented_refusals'] += 1
                    continue
                add(viols, 'C08|%s|conversion-refuses-valid-source%s' % (row['name'], trig(row, c, x)),
                    '%s(%r) raised %s for a valid %s' % (row['name'], x, type(e).__name__, src), {'row': row['name'], 'x': x, 'canon': c})
                continue
            except Exception as e:  # noqa: B902
                add(viols, 'C08|%s|conversion-raises-%s%s' % (row['name'], type(e).__name__, trig(row, c, x)),
                    '%s(%r) raised %r' % (row['name'], x, e), {'row': row['name'], 'x': x, 'canon': c})
                continue
            keys.add((row['name'], c, pclass))
            problem = row['check'](c, x, res)
            evals += 2
            if problem:
                kind = 'refusal-missing' if row.get('refusal') else 'target-rejects' if ' not a valid' in problem or ' is not valid' in problem else 'identity-lost'
                sig = 'C08|%s|%s%s' % (row['name'], kind, trig(row, c, x))
                add(viols, sig, '%s(%r): %s' % (row['name'], x, problem), {'row': row['name'], 'x': x, 'canon': c})
    return evals


def work(shard, tier):
    viols = {}
    keys = set()
    counters = {'documented_refusals': 0}
    evals = 0
    allrows = {r['name']: r for r in rows()}
    for name in shard['rows']:
        evals += run_row(allrows[name], tier, C.rng_for('C08', name), viols, keys, counters)
    samples = [list(k) for k in sorted(keys)[:2]]
    return {'evaluations': max(evals, 1), 'nontrivial': len(keys), 'violations': list(viols.values()), 'samples': samples,
            'counters': counters, 'sets': {'rows_with_cases': sorted({k[0] for k in keys})}}


def finish(agg, tier):
    allrows = {r['name'] for r in rows()}
    missing = sorted(allrows - set(agg['sets'].get('rows_with_cases', ())))
    out = {'rows_total': len(allrows), 'rows_without_cases': missing}
    if len(missing) > 6:
        out['inconclusive'] = ['conversion rows without any case: %s' % missing]
    return out


def replay(w):
    viols = {}
    allrows = {r['name']: r for r in rows()}
    row = allrows[w['row']]
    from stdnum.exceptions import ValidationError
    try:
        res = row['convert'](w['x'])
    except ValidationError:
        if not row.get('refusal'):
            add(viols, 'C08|%s|conversion-refuses-valid-source' % w['row'], 'refused', w)
        return list(viols.values())
    except Exception as e:  # noqa: B902
        add(viols, 'C08|%s|conversion-raises' % w['row'], repr(e), w)
        return list(viols.values())
    p = row['check'](w['canon'], w['x'], res)
    if p:
        add(viols, 'C08|%s|target-or-identity' % w['row'], p, w)
    return list(viols.values())
