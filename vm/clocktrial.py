"""Child of C13's clock-shift shard.  The process clock (datetime.date.today / datetime.datetime.now) is replaced
*before* the library is imported; mode 'shift' imports every number module at date D1 and then moves the clock to D2,
mode 'pristine' has the clock at D2 from the start.  Both then run the same calls; the parent compares.

argv: mode d1 d2 ; stdin: JSON list of call specs ; stdout: JSON {id: outcome}
"""
import datetime as _dt
import json
import os
import sys

REAL_DATE = _dt.date
REAL_DT = _dt.datetime


class _Clock:
    today = None
    reads = 0


class _DateMeta(type):
    def __instancecheck__(cls, inst):
        return isinstance(inst, REAL_DATE)


class _DateTimeMeta(type):
    def __instancecheck__(cls, inst):
        return isinstance(inst, REAL_DT)


class FakeDate(REAL_DATE, metaclass=_DateMeta):
    @classmethod
    def today(cls):
        _Clock.reads += 1
        t = _Clock.today
        return REAL_DATE(t.year, t.month, t.day)


class FakeDateTime(REAL_DT, metaclass=_DateTimeMeta):
    @classmethod
    def now(cls, tz=None):
        _Clock.reads += 1
        t = _Clock.today
        return REAL_DT(t.year, t.month, t.day, 12, 0, 0)

    @classmethod
    def today(cls):
        return cls.now()

    @classmethod
    def utcnow(cls):
        return cls.now()


def main():
    mode, d1, d2 = sys.argv[1], REAL_DATE.fromisoformat(sys.argv[2]), REAL_DATE.fromisoformat(sys.argv[3])
    specs = json.load(sys.stdin)
    _dt.date = FakeDate
    _dt.datetime = FakeDateTime
    import time as _time
    real_time, real_localtime = _time.time, _time.localtime

    def fake_epoch():
        t = _Clock.today
        return (REAL_DT(t.year, t.month, t.day, 12) - REAL_DT(1970, 1, 1)).total_seconds()
    _time.time = lambda: fake_epoch()
    _time.localtime = lambda secs=None: real_localtime(fake_epoch() if secs is None else secs)
    _time.gmtime_real = _time.gmtime
    _Clock.today = d1 if mode == 'shift' else d2
    assert not any(m == 'stdnum' or m.startswith('stdnum.') for m in sys.modules)
    sys.path.insert(0, os.path.dirname(os.path.dirname(os.path.abspath(__file__))))
    from vm import common as C
    from vm import calls
    C.setup_repo()
    for name in sorted(C.number_modules()):
        C.get_module(name)
    reads_at_import = _Clock.reads
    _Clock.today = d2
    out = {}
    for s in specs:
        try:
            o, _raw = calls.run_call(s)
        except BaseException as e:  # noqa: B902
            o = ['harness-error', repr(e)]
        out[str(s['id'])] = o
    out['__meta__'] = {'clock_reads_during_import': reads_at_import, 'clock_reads_total': _Clock.reads, 'mode': mode}
    sys.stdout.write(json.dumps(out))


if __name__ == '__main__':
    main()
