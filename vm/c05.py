"""C05 - check-digit generators and validators agree (DESIGN 3, C05).

Monitors:
 M0 inner-call probe: which generator validate() itself consults (sys.monitoring PY_START/PY_RETURN on the
    generator code objects) and whether what it returned sits in the accepted number.
 M1 layout inference + agreement: for every generator g and every valid number v, the rules
    (argument kind, position, width) under which g reproduces characters of v are tallied per (g, len(v)) class;
    the rule the documented corpus numbers agree on is then required of every valid number of that class
    (corpus + synthesised).
 M2 alternatives: every other character of the check alphabet at each check position is rejected.
 M3 converse: mutated payload + generated check characters spliced in by the same rule is never InvalidChecksum.
Generic algorithm modules are exercised with the alphabets of C06.
"""

import re

from vm import common as C
from vm import c06

META = {
    'level': 'exploration',
    'rule': ('generators = module functions named *calc*check_digit*/calc_checksum returning str. Per module: corpus + '
             'synthesised valid numbers (payload mutation, leading zeros, check characters repaired by search through '
             'is_valid); M1 tallies the (argument kind, position, width) rules under which the generator reproduces '
             'characters of each number and requires the corpus-majority rule of every valid number of the same '
             'length; M2 tries every other check-alphabet character at each check position; M3 splices generated check '
             'characters into mutated payloads. distinct_nontrivial = distinct (module, generator, length, check value) '
             'tuples for which agreement was decided + distinct (module, position, alternative) tuples'),
    'assumptions': ['the layout rule is inferred from the numbers quoted in the module documentation and tests: at '
                    'least 3 of one length and 90% agreement are needed, otherwise the generator is reported unmapped'],
}

GEN_RE = re.compile(r'^_?calc_(\w+_)?check_digits?(_\w+|\d)?$|^_?calc_checksum$|^_calc_\w*check_digits?$')

# check characters the module documentation itself declares interchangeable
DOCUMENTED_ALTERNATIVES = {
    'es.cif': 'calc_check_digits() "returns both the number and character check digit candidates"; validate() documents '
              'that either is accepted for organisation types ABCDEFGHJNPQRSUVW',
    'pe.cui': 'calc_check_digits() "calculates the possible check digits" (a digit and a letter); either is accepted',
}


def generators(mod):
    out = {}
    for k, f in vars(mod).items():
        if callable(f) and getattr(f, '__module__', None) == mod.__name__ and GEN_RE.match(k) and hasattr(f, '__code__'):
            if f.__code__.co_argcount >= 1:
                out[k] = f
    name = mod.__name__[len('stdnum.'):]
    if name in DOCUMENTED_ALTERNATIVES:
        # candidate-set generators: one derived generator per candidate
        for k, f in list(out.items()):
            del out[k]
            for j in (0, 1):
                out['%s[%d]' % (k, j)] = (lambda a, f=f, j=j: f(a)[j])
            _full[(name, k)] = f
    return out


_full = {}


def candidates(name, gname, arg):
    """All documented candidate check characters for this argument (only for candidate-set generators)."""
    f = _full.get((name, gname.split('[')[0]))
    if f is None:
        return None
    try:
        return f(arg)
    except Exception:  # noqa: B902
        return None


def eligible():
    return sorted(n for n, m in C.number_modules().items() if generators(m) and n not in C.GENERIC_ALGOS)


THREAD_REPLICA = False   # this monitor uses a process-wide sys.monitoring probe / has its own thread trials


def shards(tier):
    names = eligible()
    n = 24 if tier == 'quick' else 48
    out = [{'name': 'm%02d' % i, 'kind': 'mod', 'modules': part} for i, part in enumerate(C.chunk(names, n)) if part]
    out += [dict(c, kind='algo', name='algo/' + c['name']) for c in c06.configs()]
    return out


def add(viols, sig, what, witness):
    if sig in viols:
        viols[sig]['count'] += 1
    else:
        viols[sig] = {'sig': sig, 'what': what, 'count': 1, 'witness': witness}


def call_gen(g, arg):
    try:
        r = g(arg)
    except Exception:  # noqa: B902
        return None
    return r if isinstance(r, str) and 1 <= len(r) <= 3 else None


def rules_for(g, v):
    """All (kind, i, k) under which g reproduces v[i:i+k].  A kind may carry '@p': the generator is given the
    argument without the p leading letters of the number (CHE..., a country prefix)."""
    n = len(v)
    out = set()
    p = 0
    while p < n and p < 4 and v[p].isalpha():
        p += 1
    for strip in ((0, p) if 0 < p < n - 2 else (0,)):
        sfx = '@%d' % strip if strip else ''
        whole = call_gen(g, v[strip:])
        for k in (1, 2):
            for i in range(strip, n - k + 1):
                target = v[i:i + k]
                if whole is not None and len(whole) == k and whole == target:
                    out.add(('whole' + sfx, i, k))
                r = call_gen(g, (v[:i] + v[i + k:])[strip:])
                if r == target:
                    out.add(('del' + sfx, i, k))
                if i > strip:
                    r = call_gen(g, v[strip:i])
                    if r == target:
                        out.add(('head' + sfx, i, k))
                r = call_gen(g, (v[:i] + '0' * k + v[i + k:])[strip:])
                if r == target:
                    out.add(('zero' + sfx, i, k))
        if out:
            break
    return out


def arg_for(rule, v):
    kind, i, k = rule
    strip = 0
    if '@' in kind:
        kind, s = kind.split('@')
        strip = int(s)
    if kind == 'whole':
        return v[strip:]
    if kind == 'del':
        return (v[:i] + v[i + k:])[strip:]
    if kind == 'head':
        return v[strip:i]
    return (v[:i] + '0' * k + v[i + k:])[strip:]


class _WithOptions:
    """The module with validate()/is_valid() bound to the options under which check digits are verified."""

    def __init__(self, mod, kw):
        self._mod = mod
        self._kw = kw
        self.__name__ = mod.__name__

    def validate(self, number):
        return self._mod.validate(number, **self._kw)

    def is_valid(self, number):
        return self._mod.is_valid(number, **self._kw)

    def __getattr__(self, k):
        return getattr(self._mod, k)


def module_work(name, mod, tier, rng, viols, cells, counters, samples, probe, calls):
    evals = 0
    import inspect
    try:
        params = inspect.signature(mod.validate).parameters
    except (TypeError, ValueError):
        params = {}
    if 'validate_check_digits' in params and params['validate_check_digits'].default is False:
        # the check digit is only verified on request (documented option): C05 speaks about the verifying mode
        gens0 = generators(mod)
        mod = _WithOptions(mod, {'validate_check_digits': True})
        mod._gens = gens0
    gens = getattr(mod, '_gens', None) or generators(mod)
    corpus = []
    for v in C.corpus(name, limit=60 if tier == 'quick' else 1500, rng=rng):
        o = C.outcome(mod.validate, v)
        if o[0] == 'ok' and isinstance(o[1], str) and o[1] not in corpus:
            corpus.append(o[1])
    if not corpus:
        return 0
    synth = [x for x in C.synth_valid(name, 30 if tier == 'quick' else 1200, rng, base=corpus) if C.outcome(mod.validate, x) == ('ok', x)]
    # M0: which generator does validate() consult
    for gname, g in gens.items():
        probe.watch(_full.get((name, gname.split('[')[0]), g), (name, gname.split('[')[0]))
    consulted = set()
    for v in corpus[:20] + synth[:20]:
        del calls[:]
        o = C.outcome(mod.validate, v)
        evals += 1
        for (tag, arg, res) in calls:
            if tag[0] != name:
                continue
            consulted.add(tag[1])
            counters['generator_calls_observed_inside_validate'] += 1
            if o[0] == 'ok' and isinstance(res, str) and res and res not in v and res.upper() not in v.upper():
                if name in DOCUMENTED_ALTERNATIVES and any(c in v for c in res):
                    continue
                if isinstance(arg, str) and len(arg) > len(v):
                    continue   # the generator was applied to a derived, longer number (conversion), not to v
                add(viols, 'C05|%s|%s|validator-accepts-without-generated-check' % (name, tag[1]),
                    'validate(%r) accepted although %s(%r) returned %r, which does not occur in the number' % (v, tag[1], arg, res),
                    {'module': name, 'number': v, 'generator': tag[1], 'kind': 'm0'})
    # M1: layout inference per (generator, length)
    mapped_rules = {}
    extra_synth = {}
    for gname, g in gens.items():
        by_len = {}
        for v in corpus:
            by_len.setdefault(len(v), []).append(v)
        for L in list(by_len):
            if len(by_len[L]) < 6:
                # few documented numbers of this length: synthesised ones (accepted by the library) join the tally
                if L not in extra_synth:
                    extra_synth[L] = [x for x in C.synth_valid(name, 40 if tier == 'quick' else 400, rng, base=by_len[L])
                                      if len(x) == L and C.outcome(mod.validate, x) == ('ok', x)]
                    synth.extend(x for x in extra_synth[L] if x not in synth)
                add_ = [x for x in synth if len(x) == L and x not in by_len[L]][:10]
                if add_:
                    # only where validate() is seen to consult this generator for the numbers of the class (otherwise a
                    # rule that fits a handful of synthesised numbers may be a coincidence)
                    cons = 0
                    for v in by_len[L] + add_:
                        del calls[:]
                        C.outcome(mod.validate, v)
                        if gname.split('[')[0] in {tag[1] for (tag, _a, _r) in calls if tag[0] == name}:
                            cons += 1
                    if cons >= 0.9 * len(by_len[L] + add_):
                        by_len[L] = by_len[L] + add_
        for L, vs in by_len.items():
            tally = {}
            applicable = 0
            per_v = {}
            for v in vs[:40]:
                rs = rules_for(g, v)
                evals += 6 * L
                per_v[v] = rs
                if rs:
                    applicable += 1
                for r in rs:
                    tally[r] = tally.get(r, 0) + 1
            if not tally:
                continue
            # prefer the rule most corpus numbers agree on; ties: 'del' first, widest
            best = sorted(tally.items(), key=lambda kv: (-kv[1], {'del': 0, 'head': 1, 'zero': 2, 'whole': 3}[kv[0][0].split('@')[0]], -kv[0][2]))[0]
            rule, hits = best
            nvs = len(vs[:40])
            if nvs >= 3 and hits >= 3 and 0.5 * nvs <= hits < 0.9 * nvs:
                # not enough agreement to call this the layout, but enough to ask one narrow question: does the
                # exposed generator fail outright on the rest of a valid number for which validate() consults it?
                for v in vs:
                    o = C.outcome(g, arg_for(rule, v))
                    if o[0] == 'exc':
                        del calls[:]
                        C.outcome(mod.validate, v)
                        if gname.split('[')[0] in {tag[1] for (tag, _a, _r) in calls if tag[0] == name}:
                            add(viols, 'C05|%s|%s|generator-raises-on-valid-number' % (name, gname.split('[')[0]),
                                '%s accepts %r but %s(%r) raises %s (%s)' % (name, v, gname, arg_for(rule, v), o[1], o[3]),
                                {'module': name, 'number': v, 'generator': gname, 'rule': list(rule), 'kind': 'm1'})
            if nvs < 3 or hits < 0.9 * nvs:
                counters['unmapped_generator_classes'] += 1
                continue
            counters['mapped_generator_classes'] += 1
            kind, i, k = rule
            checkalpha = set('0123456789')
            for v in vs:
                checkalpha.update(v[i:i + k])
            # every valid number of the class must agree
            for v in vs + [s for s in synth if len(s) == L]:
                r = call_gen(g, arg_for(rule, v))
                evals += 1
                if r is None:
                    o = C.outcome(g, arg_for(rule, v))
                    shape = lambda t: ''.join('9' if ch.isdigit() else 'A' if ch.isalpha() else ch for ch in t)  # noqa: E731
                    agreeing_shapes = {shape(x) for x in vs[:40] if rule in per_v.get(x, ())}
                    used = set()
                    if o[0] == 'exc':
                        del calls[:]
                        C.outcome(mod.validate, v)
                        used = {tag[1] for (tag, _a, _r) in calls if tag[0] == name}
                    if o[0] == 'exc' and gname.split('[')[0] in used:
                        add(viols, 'C05|%s|%s|generator-raises-on-valid-number' % (name, gname.split('[')[0]),
                            '%s accepts %r but %s(%r) raises %s (%s); the documented numbers of this length go through rule %s' % (
                                name, v, gname, arg_for(rule, v), o[1], o[3], kind),
                            {'module': name, 'number': v, 'generator': gname, 'rule': list(rule), 'kind': 'm1'})
                    continue
                checkalpha.update(r)
                cells.add((name, gname, L, r))
                if r != v[i:i + k]:
                    cand = candidates(name, gname, arg_for(rule, v))
                    if cand is not None and v[i:i + k] and v[i:i + k] in cand:
                        continue
                    if v in getattr(mod, 'whitelist', ()):
                        counters['whitelisted_numbers_skipped'] = counters.get('whitelisted_numbers_skipped', 0) + 1
                        continue   # the module documents a list of issued numbers whose check digit is wrong
                    clause = 'generator-disagrees-with-valid-number'
                    if k == 2 and r.isdigit() and v[i:i + k].isdigit() and (int(r) - int(v[i:i + k])) % 97 == 0:
                        clause += '|mod97-alias'
                    add(viols, 'C05|%s|%s|%s' % (name, gname, clause),
                        '%s.validate accepts %r but %s(%r) = %r while the number carries %r at [%d:%d] (rule %s agreed '
                        'by %d/%d documented numbers of length %d)' % (name, v, gname, arg_for(rule, v), r, v[i:i + k], i, i + k, kind, hits, nvs, L),
                        {'module': name, 'number': v, 'generator': gname, 'rule': list(rule), 'kind': 'm1'})
            if len(samples) < 2:
                samples.append({'module': name, 'generator': gname, 'length': L, 'rule': list(rule), 'agreeing_documented_numbers': hits})
            # M2: alternatives at the check positions
            pool = vs[:12] + [s for s in synth if len(s) == L][:28 if tier == 'quick' else 600]
            for v in pool:
                for p in range(i, i + k):
                    for c in sorted(checkalpha):
                        if c == v[p]:
                            continue
                        t = v[:p] + c + v[p + 1:]
                        evals += 1
                        cells.add((name, p - i, c))
                        if mod.is_valid(t) is True:
                            cand = candidates(name, gname, arg_for(rule, v))
                            if cand is not None and c in cand:
                                counters['documented_alternatives_seen'] += 1
                                continue
                            add(viols, 'C05|%s|%s|other-check-character-accepted' % (name, gname),
                                '%r is valid and so is %r (check position %d: %r -> %r)' % (v, t, p, v[p], c),
                                {'module': name, 'number': v, 'other': t, 'generator': gname, 'kind': 'm2'})
            mapped_rules.setdefault(L, []).append((gname, g, rule))
            # further check blocks computed by the same generator (the 9-digit base inside a 14-digit number): a rule at
            # other positions that every number of the class obeys (at least eight of them) joins the converse (M3)
            pool_all = vs + [s for s in synth if len(s) == L]
            if len(pool_all) >= 8:
                for (r2, h2) in sorted(tally.items(), key=lambda kv: kv[0][1]):
                    k2, i2, w2 = r2
                    if r2 == rule or set(range(i2, i2 + w2)) & set(range(i, i + k)) or k2.split('@')[0] == 'whole':
                        continue
                    if any(set(range(i2, i2 + w2)) & set(range(rr[1], rr[1] + rr[2])) for (_gn, _g, rr) in mapped_rules.get(L, [])):
                        continue
                    if all(call_gen(g, arg_for(r2, v)) == v[i2:i2 + w2] for v in pool_all):
                        mapped_rules[L].append((gname, g, r2))
                        counters['secondary_check_blocks'] = counters.get('secondary_check_blocks', 0) + 1
        # M1b: a length class this generator could not be mapped on although validate() consults it there, while a
        # sibling length is mapped with the check characters at the end: the public generator is given the rest of
        # the number in the same way (end-relative) and must reproduce the characters the valid number carries
        ends = [(L2, r) for L2, lst in mapped_rules.items() for (gn2, _g2, r) in lst if gn2 == gname and r[0] in ('del', 'head') and r[1] + r[2] == L2]
        if ends:
            k = ends[0][1][2]
            for L, vs in by_len.items():
                if any(gn2 == gname for (gn2, _g2, _r) in mapped_rules.get(L, [])) or L <= k + 1:
                    continue
                consulted_here = 0
                disagree = []
                for v in vs[:20]:
                    del calls[:]
                    C.outcome(mod.validate, v)
                    if gname.split('[')[0] not in {tag[1] for (tag, _a, _r) in calls if tag[0] == name}:
                        continue
                    consulted_here += 1
                    r = call_gen(g, v[:L - k])
                    evals += 2
                    if r is not None and r != v[L - k:]:
                        disagree.append((v, r))
                if consulted_here >= 2 and len(disagree) >= 0.5 * consulted_here:
                    v, r = disagree[0]
                    cand = candidates(name, gname, v[:L - k])
                    if cand is not None and v[L - k:] in cand:
                        continue
                    add(viols, 'C05|%s|%s|generator-disagrees-with-valid-number|rule-of-sibling-length' % (name, gname),
                        '%s.validate accepts %r and consults %s, but %s(%r) = %r while the number ends in %r (numbers of length %d follow that rule)' % (
                            name, v, gname, gname, v[:L - k], r, v[L - k:], ends[0][0]),
                        {'module': name, 'number': v, 'generator': gname, 'rule': ['del', L - k, k], 'kind': 'm1'})
    # M3: converse - generated check characters on fresh payloads are never a checksum error.  All mapped
    # generators of a length class are applied in order of position; a checksum failure is attributed to a
    # generator only if some other character at its check position would have been accepted.
    conf_by_class, cases_by_class, conf_example = {}, {}, {}
    for L, rules in mapped_rules.items():
        rules.sort(key=lambda t: t[2][1])
        checkpos = set()
        for _gn, _g, (kind, i, k) in rules:
            checkpos.update(range(i, i + k))
        pool = [v for v in corpus if len(v) == L][:6] + [s for s in synth if len(s) == L][:6 if tier == 'quick' else 300]
        for v in pool:
            for _ in range((40 if len(rules) > 1 else 6) if tier == 'quick' else 60):
                s = list(v)
                idx = [q for q in range(L) if q not in checkpos and s[q].isdigit()]
                if not idx:
                    break
                for q in rng.sample(idx, min(len(idx), rng.choice((1, 2, 3)))):
                    s[q] = rng.choice('0123456789')
                w = ''.join(s)
                okgen = True
                for gname, g, rule in rules:
                    kind, i, k = rule
                    r = call_gen(g, arg_for(rule, w))
                    if r is None:
                        # a generator that fails on a well-formed payload of the documented shape
                        o = C.outcome(g, arg_for(rule, w))
                        if o[0] == 'exc' and arg_for(rule, w).isdigit() and arg_for(rule, w).isascii():
                            add(viols, 'C05|%s|%s|generator-raises-%s' % (name, gname.split('[')[0], o[1]),
                                '%s.%s(%r) raised %s (%s) for a payload of the same shape as valid numbers' % (name, gname, arg_for(rule, w), o[1], o[3]),
                                {'module': name, 'number': w, 'generator': gname, 'kind': 'm3'})
                    if r is None or len(r) != k:
                        okgen = False
                        break
                    w = w[:i] + r + w[i + k:]
                if not okgen:
                    continue
                o = C.outcome(mod.validate, w)
                evals += 2
                cells.add((name, 'm3', L, ''.join(w[q] for q in sorted(checkpos))))
                counters['converse_cases'] += 1
                gk = (L, w[:2] if w[:1].isalpha() else w[:4])
                cases_by_class[gk] = cases_by_class.get(gk, 0) + 1
                if o[0] == 've' and o[1] == 'InvalidChecksum':
                    blamed = None
                    for gname, g, (kind, i, k) in rules:
                        for p in range(i, i + k):
                            for c in '0123456789ABCDEFGHIJKLMNOPQRSTUVWXYZ':
                                if c != w[p] and mod.is_valid(w[:p] + c + w[p + 1:]) is True:
                                    blamed = (gname, p, c)
                                    break
                            if blamed:
                                break
                        if blamed:
                            break
                    evals += 36
                    if blamed is not None:
                        alt = w[:blamed[1]] + blamed[2] + w[blamed[1] + 1:]
                        oa = C.outcome(mod.validate, alt)
                        if oa[0] == 'ok' and isinstance(oa[1], str) and len(oa[1]) != len(alt):
                            blamed = None   # the accepted alternative is read as a number of another length class (other scheme)
                    if blamed is None:
                        counters['converse_confounded_by_other_checks'] += 1
                        gk = (L, w[:2] if w[:1].isalpha() else w[:4])
                        conf_by_class[gk] = conf_by_class.get(gk, 0) + 1
                        conf_example.setdefault(gk, w)
                        continue
                    add(viols, 'C05|%s|%s|generated-check-rejected-as-checksum-error' % (name, blamed[0].split('[')[0]),
                        '%r (payload completed with the generated check characters) is rejected with InvalidChecksum '
                        'while %r at position %d is accepted' % (w, blamed[2], blamed[1]),
                        {'module': name, 'number': w, 'generator': blamed[0], 'kind': 'm3'})
    # M3b: an independent check the module does not expose fails nine payloads in ten; a generator that disagrees with
    # the validator on a rare value (a remainder of 10 folded differently) fails a few per cent of them
    for gk, nconf in conf_by_class.items():
        L = gk[0]
        ncases = cases_by_class.get(gk, 0)
        if ncases >= 30 and 2 <= nconf <= 0.3 * ncases:
            add(viols, 'C05|%s|generated-check-rejected-for-some-payloads' % name,
                '%d of %d payloads of length %d completed with the generated check characters are rejected with InvalidChecksum and no other '
                'character at a check position is accepted either (e.g. %r)' % (nconf, ncases, L, conf_example[gk]),
                {'module': name, 'number': conf_example[gk], 'generator': mapped_rules[L][0][0], 'kind': 'm3'})
    # M4: payloads for which the generator yields no usable check character (a value of another length, such as the
    # '10' of a mod-11 scheme): no character at the check position may then complete them to a valid number, or a
    # valid number would exist whose generated check differs from the one it carries
    for L, rules in mapped_rules.items():
        if len(rules) != 1:
            continue
        gname, g, rule = rules[0]
        kind, i, k = rule
        if k != 1:
            continue
        pool = [v for v in corpus if len(v) == L][:4] + [s for s in synth if len(s) == L][:4]
        odd = []
        for v in pool:
            idx = [q for q in range(L) if q != i and v[q].isdigit()]
            if not idx:
                continue
            for _ in range(150 if tier == 'quick' else 4000):
                t = list(v)
                for q in rng.sample(idx, min(len(idx), rng.choice((2, 3, 4)))):
                    t[q] = rng.choice('0123456789')
                w = ''.join(t)
                o = C.outcome(g, arg_for(rule, w))
                evals += 1
                if o[0] == 'ok' and isinstance(o[1], str) and len(o[1]) != k:
                    odd.append((w, o[1]))
        counters['payloads_without_check_character'] = counters.get('payloads_without_check_character', 0) + len(odd)
        for w, r in odd[:60 if tier == 'quick' else 2000]:
            cells.add((name, 'm4', L, r))
            for c in '0123456789ABCDEFGHIJKLMNOPQRSTUVWXYZ':
                t = w[:i] + c + w[i + 1:]
                evals += 1
                if mod.is_valid(t) is True:
                    cand = candidates(name, gname, arg_for(rule, w))
                    if cand is not None and c in cand:
                        continue
                    if r.upper() == c or (len(r) == 2 and r.isdigit() and c in 'XK'):
                        continue   # handled by the module's documented mapping of the two-digit value onto a letter
                    ot = C.outcome(mod.validate, t)
                    if ot[0] == 'ok' and isinstance(ot[1], str) and len(ot[1]) != len(t):
                        continue   # read as a number of another length class (another scheme of the same module)
                    add(viols, 'C05|%s|%s|number-accepted-although-generator-yields-no-check-character' % (name, gname.split('[')[0]),
                        '%s accepts %r while %s(%r) = %r (no single check character): a valid number whose generated check differs from the one it carries' % (
                            name, t, gname, arg_for(rule, w), r),
                        {'module': name, 'number': t, 'generator': gname, 'rule': list(rule), 'kind': 'm1'})
                    break
    return evals


def algo_work(cfg, tier, rng, viols, cells, nested=False):
    A = c06.Algo(cfg)
    name = cfg['name'] if cfg['name'].startswith('algo/') else 'algo/' + cfg['name']
    evals = 0
    if not nested:
        comp = c06.companion(cfg)
        if comp is not None:
            # same algorithm, another alphabet of the same length first and in between (state keyed by length)
            evals += algo_work(comp, tier, rng, viols, cells, nested=True)
    for w in c06.payloads(A, 'quick', rng):
        if len(w) > 64 or (nested and len(w) > 12):
            continue
        try:
            c = A.calc(w)
        except Exception as e:  # noqa: B902
            add(viols, 'C05|%s|generator-raises' % name, 'calc(%r) raised %r' % (w, e), {'config': cfg, 'payload': w, 'kind': 'algo'})
            continue
        o = A.validate(w + c)
        evals += 2
        cells.add((name, len(w), c))
        if o[0] != 'ok':
            add(viols, 'C05|%s|generated-check-rejected' % name, 'payload %r + generated %r is rejected (%s)' % (w, c, o[1]),
                {'config': cfg, 'payload': w, 'kind': 'algo'})
        if not A.two:
            for c2 in A.check_alpha:
                if c2 != c:
                    evals += 1
                    if A.is_valid(w + c2):
                        add(viols, 'C05|%s|other-check-character-accepted' % name, '%r validates with both %r and %r' % (w, c, c2),
                            {'config': cfg, 'payload': w, 'kind': 'algo'})
    return evals


def work(shard, tier):
    viols = {}
    cells = set()
    counters = {'generator_calls_observed_inside_validate': 0, 'mapped_generator_classes': 0,
                'unmapped_generator_classes': 0, 'documented_alternatives_seen': 0, 'converse_cases': 0,
                'converse_confounded_by_other_checks': 0}
    samples = []
    evals = 0
    sets = {}
    rng = C.rng_for('C05', shard['name'])
    if shard['kind'] == 'algo':
        evals += algo_work(shard, tier, rng, viols, cells)
    else:
        mods = C.number_modules()
        probe = C.Probe()
        probe.start()
        calls = []
        pending = {}

        def on_start(tag, frame):
            args = C.frame_args(frame)
            pending[id(frame)] = next(iter(args.values()), None)

        def on_return(tag, frame, retval):
            calls.append((tag, pending.pop(id(frame), None), retval))
        probe.on_start = on_start
        probe.on_return = on_return
        mapped = []
        for name in shard['modules']:
            before = counters['mapped_generator_classes']
            evals += module_work(name, mods[name], tier, C.rng_for('C05', name), viols, cells, counters, samples, probe, calls)
            if counters['mapped_generator_classes'] > before:
                mapped.append(name)
        probe.stop()
        sets['modules_with_mapped_generator'] = mapped
        sets['modules_with_generator'] = shard['modules']
    return {'evaluations': evals, 'nontrivial': len(cells), 'violations': list(viols.values()), 'samples': samples,
            'counters': counters, 'sets': sets}


def finish(agg, tier):
    allg = set(agg['sets'].get('modules_with_generator', ()))
    mapped = set(agg['sets'].get('modules_with_mapped_generator', ()))
    out = {'modules_with_unmapped_generator': sorted(allg - mapped)}
    if len(mapped) < 0.6 * max(1, len(allg)):
        out['inconclusive'] = ['only %d of %d generator modules could be mapped' % (len(mapped), len(allg))]
    return out


def replay(w):
    viols = {}
    if w.get('kind') == 'algo':
        algo_work(w['config'], 'quick', C.rng_for('C05', 'algo/' + w['config']['name']), viols, set())
    else:
        name = w['module']
        mod = C.number_modules()[name]
        probe = C.Probe()
        probe.start()
        calls = []
        pending = {}

        def on_start(tag, frame):
            args = C.frame_args(frame)
            pending[id(frame)] = next(iter(args.values()), None)

        def on_return(tag, frame, retval):
            calls.append((tag, pending.pop(id(frame), None), retval))
        probe.on_start = on_start
        probe.on_return = on_return
        counters = {'generator_calls_observed_inside_validate': 0, 'mapped_generator_classes': 0,
                    'unmapped_generator_classes': 0, 'documented_alternatives_seen': 0, 'converse_cases': 0,
                    'converse_confounded_by_other_checks': 0}
        module_work(name, mod, 'quick', C.rng_for('C05', name), viols, set(), counters, [], probe, calls)
        probe.stop()
    return list(viols.values())
