"""C09 - aggregate validators accept exactly what their constituent formats accept (DESIGN 3, C09).

Relational monitor over a relation table: the expected outcome of each wrapper is computed from the constituents'
validate() under an independent projection written from the statement, and compared with the wrapper.
"""

import os
import re

from vm import common as C

META = {
    'level': 'exploration',
    'rule': ('relations: eu.vat vs the 27 member-state VAT modules + XI + EL (+ EU/IM one-stop-shop) with prefix handling '
             'and guess_country; vatin >= eu.vat; us.tin / be.ssn / th.tin = union of sub-types (+ guess_type); es.nif >= '
             'dni, nie, cif; iban = generic rules AND national module for BE/ES/NO/ME, national => generic; ch.vat, se.vat, '
             'no.mva, fi.ytunnus, mc.tva, ro.cf, sk.rc vs their constituents; get_cc_module aliases vs the package '
             '__init__ files. Inputs per relation: constituent corpus numbers bare / prefixed / lower-case / spaced, '
             'single-edit neighbours, the same body under every other country code, unknown codes. distinct_nontrivial = '
             'distinct (relation, input) pairs on which wrapper or constituent accepted'),
    'assumptions': ['the member-state table and the projections are the harness\'s own reading of the statement'],
}

EU_STATES = {
    'at': 'at.uid', 'be': 'be.vat', 'bg': 'bg.vat', 'cy': 'cy.vat', 'cz': 'cz.dic', 'de': 'de.vat', 'dk': 'dk.cvr',
    'ee': 'ee.kmkr', 'es': 'es.nif', 'fi': 'fi.alv', 'fr': 'fr.tva', 'gr': 'gr.vat', 'hr': 'hr.oib', 'hu': 'hu.anum',
    'ie': 'ie.vat', 'it': 'it.iva', 'lt': 'lt.pvm', 'lu': 'lu.tva', 'lv': 'lv.pvn', 'mt': 'mt.vat', 'nl': 'nl.btw',
    'pl': 'pl.nip', 'pt': 'pt.nif', 'ro': 'ro.cf', 'se': 'se.vat', 'si': 'si.ddv', 'sk': 'sk.dph',
}
EU_PREFIX = dict(EU_STATES, xi='gb.vat', el='gr.vat', eu='eu.oss', im='eu.oss')
# Greece is a member state under 'gr' (accepted as written) and EL is its VAT alias


def shards(tier):
    rels = ['eu.vat:' + cc for cc in sorted(EU_PREFIX)] + ['eu.vat:other', 'vatin', 'us.tin', 'be.ssn', 'th.tin', 'es.nif',
                                                           'iban:be', 'iban:es', 'iban:no', 'iban:me', 'iban:other',
                                                           'ch.vat', 'se.vat', 'no.mva', 'fi.ytunnus', 'mc.tva', 'ro.cf', 'sk.rc', 'aliases']
    return [{'name': r, 'rel': r} for r in rels]


def add(viols, sig, what, witness):
    if sig in viols:
        viols[sig]['count'] += 1
    else:
        viols[sig] = {'sig': sig, 'what': what, 'count': 1, 'witness': witness}


def val(modname, x):
    return C.short(C.outcome(C.get_module(modname).validate, x))


def variants(nums, cc, rng, tier, others=()):
    """Presentation and near-miss variants of constituent numbers."""
    out = []
    for v in nums:
        body = v
        forms = [v, v.lower(), ' ' + v + ' ', ' '.join(v[i:i + 3] for i in range(0, len(v), 3))]
        if cc:
            up = cc.upper()
            stripped = v[2:] if v.upper().startswith(up) else v
            forms += [up + stripped, cc.lower() + stripped, up + ' ' + stripped, up + '-' + stripped, stripped, up + up + stripped]
            for o in others:
                forms.append(o.upper() + stripped)
            # the prefix typed with characters that only become its letters through upper() (ligature fi, long s,
            # dotless i): upper() may change the length of the text
            low = cc.lower()
            odd = []
            if low == 'fi':
                odd.append('\ufb01')
            for a, b in (('s', '\u017f'), ('i', '\u0131')):
                if a in low:
                    odd.append(low.replace(a, b))
                    odd.append(low.replace(a, b).upper())
            for sp in odd:
                forms += [sp + stripped, sp + ' ' + stripped]
        for f in list(forms[:6]):
            for _ in range(2 if tier == 'quick' else 6):
                p = rng.randrange(len(f)) if f else 0
                if f and f[p].isdigit():
                    forms.append(f[:p] + str((int(f[p]) + rng.randrange(1, 10)) % 10) + f[p + 1:])
                elif f and f[p].isalpha():
                    forms.append(f[:p] + rng.choice('ABCDEFGHIJKLMNOPQRSTUVWXYZ') + f[p + 1:])
            forms.append(f[:-1])
            forms.append(f + '0')
        out.extend(forms)
    out += ['', '  ', 'XX123456789', 'ZZ', 'E', '12']
    return list(dict.fromkeys(out))


def own_clean(x):
    """Harness's own reading of "surrounding whitespace and case do not matter" for the EU wrapper."""
    from stdnum.util import clean
    try:
        return clean(x, '').upper().strip()
    except Exception:  # noqa: B902
        return None


def eu_expected(x):
    y = own_clean(x)
    if y is None:
        return ('rej',)
    cc = y[:2].lower()
    if cc not in EU_PREFIX:
        return ('rej',)
    r = val(EU_PREFIX[cc], y)
    if r[0] != 'ok':
        return ('rej',)
    v = r[1]
    up = cc.upper()
    body = v[2:] if v.startswith(up) else v
    return ('ok', up + body)


def rel_work(rel, tier, rng, viols, keys, counters):
    evals = 0

    def compare(relname, wrapper, x, expected, extra=''):
        nonlocal evals
        got = val(wrapper, x)
        evals += 1
        if got[0] == 'ok' or expected[0] == 'ok':
            keys.add((relname, x))
        if got != expected:
            clause = 'wrapper-accepts-constituents-reject' if got[0] == 'ok' and expected[0] != 'ok' else \
                'wrapper-rejects-constituents-accept' if got[0] != 'ok' else 'result-differs'
            tag = relname
            if relname in ('eu.vat', 'vatin>=eu.vat', 'vatin'):
                y = own_clean(x) or ''
                tag = '%s:%s' % (relname, y[:2] if y[:2].isalpha() and y[:2].isascii() else '??')
                if not x.strip()[:2].isascii():
                    tag = '%s:non-ascii-prefix' % relname   # prefix letters that only upper() turns into a country code
            add(viols, 'C09|%s|%s' % (tag, clause), '%s.validate(%r) -> %r but the constituents give %r %s' % (wrapper, x, got, expected, extra),
                {'rel': rel, 'wrapper': wrapper, 'x': x})

    n = 5 if tier == 'quick' else 150
    if rel.startswith('eu.vat:'):
        cc = rel.split(':')[1]
        from stdnum.eu import vat as euvat
        if cc == 'other':
            inputs = []
            for pkg in ('gb', 'ch', 'no', 'is_', 'tr', 'us', 'mc', 'sm', 'rs'):
                for v in C.corpus({'gb': 'gb.vat', 'ch': 'ch.vat', 'no': 'no.mva', 'is_': 'is_.vsk', 'tr': 'tr.vkn', 'us': 'us.ein', 'mc': 'mc.tva', 'sm': 'sm.coe', 'rs': 'rs.pib'}[pkg], limit=2, rng=rng):
                    inputs += [pkg.rstrip('_').upper() + v, v]
            inputs += ['GR123456783', 'gr 094259216', 'UK123', 'XI', 'EL', 'EU', 'IM12', 'eu372022452']
        else:
            con = EU_PREFIX[cc]
            nums = C.corpus(con, limit=n, rng=rng)
            inputs = variants(nums, cc, rng, tier, others=rng.sample(sorted(EU_PREFIX), 4))
        for x in inputs:
            compare('eu.vat', 'eu.vat', x, eu_expected(x))
            # guess_country: exactly the member states whose module accepts
            g = C.outcome(euvat.guess_country, x)
            evals += 1
            want = sorted(c for c, m in dict(EU_STATES, xi='gb.vat').items() if C.outcome(C.get_module(m).is_valid, x) == ('ok', True))
            if g[0] != 'ok' or sorted(g[1]) != want:
                add(viols, 'C09|eu.vat.guess_country|differs', 'guess_country(%r) = %r, accepting member-state modules: %r' % (x, g[1:2], want),
                    {'rel': rel, 'wrapper': 'eu.vat.guess_country', 'x': x})
            # vatin agrees wherever eu.vat accepts
            e = val('eu.vat', x)
            if e[0] == 'ok':
                compare('vatin>=eu.vat', 'vatin', x, e)
        # alias table of the tree vs the harness table
        from stdnum.util import get_cc_module
        if cc in EU_PREFIX and cc not in ('eu', 'im', 'xi', 'el'):
            m = get_cc_module(cc, 'vat')
            if getattr(m, '__name__', None) != 'stdnum.' + EU_PREFIX[cc]:
                add(viols, 'C09|eu.vat|alias-table-differs|%s' % cc, 'get_cc_module(%r, "vat") is %r, expected stdnum.%s' % (cc, getattr(m, '__name__', None), EU_PREFIX[cc]),
                    {'rel': rel, 'wrapper': 'util.get_cc_module', 'x': cc})
    elif rel == 'vatin':
        # non-EU countries: vatin == CC + national result, or national result if it already validates with the prefix
        from stdnum.util import get_cc_module
        for pkg in sorted({p.split('.')[0] for p in C.number_modules() if '.' in p}):
            cc = pkg.rstrip('_')
            m = get_cc_module(cc, 'vat')
            if m is None:
                continue
            con = m.__name__[len('stdnum.'):]
            for x in variants(C.corpus(con, limit=2, rng=rng), cc, rng, 'quick')[:40]:
                y = own_clean(x)
                if y is None or y[:2].lower() not in (cc, 'el' if cc == 'gr' else cc, 'xi' if cc == 'gb' else cc):
                    continue
                if not x.strip()[:2].isascii():
                    continue   # the statement only relates vatin to eu.vat for such spellings (checked there)
                r1 = val(con, y[2:])
                exp = ('ok', y[:2] + r1[1]) if r1[0] == 'ok' else val(con, y)
                compare('vatin', 'vatin', x, exp)
    elif rel in ('us.tin', 'be.ssn', 'th.tin'):
        subs = {'us.tin': ['us.ssn', 'us.itin', 'us.ein', 'us.ptin', 'us.atin'], 'be.ssn': ['be.bis', 'be.nn'], 'th.tin': ['th.moa', 'th.pin']}[rel]
        nums = []
        for s in subs:
            nums += C.corpus(s, limit=n, rng=rng) + C.synth_valid(s, n, rng)
        nums += C.corpus(rel, limit=n, rng=rng)
        for x in variants(nums, '', rng, tier):
            outs = [val(s, x) for s in subs]
            evals += len(subs)
            acc = [o for o in outs if o[0] == 'ok']
            got = val(rel, x)
            evals += 1
            if acc or got[0] == 'ok':
                keys.add((rel, x))
            if (got[0] == 'ok') != bool(acc) or (acc and got not in acc):
                clause = 'wrapper-accepts-constituents-reject' if got[0] == 'ok' and not acc else 'wrapper-rejects-constituents-accept' if got[0] != 'ok' else 'result-differs'
                add(viols, 'C09|%s|%s' % (rel, clause), '%s.validate(%r) -> %r but sub-types give %r' % (rel, x, got, dict(zip(subs, outs))),
                    {'rel': rel, 'wrapper': rel, 'x': x})
            if rel == 'us.tin':
                from stdnum.us import tin
                g = C.outcome(tin.guess_type, x)
                want = [s.split('.')[1] for s in subs if C.outcome(C.get_module(s).is_valid, x) == ('ok', True)]
                if g[0] != 'ok' or list(g[1]) != want:
                    add(viols, 'C09|us.tin.guess_type|differs', 'guess_type(%r) = %r, accepting sub-types %r' % (x, g[1:2], want), {'rel': rel, 'wrapper': 'us.tin.guess_type', 'x': x})
    elif rel == 'es.nif':
        for s in ('es.dni', 'es.nie', 'es.cif'):
            nums = C.corpus(s, limit=n * 8, rng=rng) + C.synth_valid(s, n * 12, rng) + C.synth_alphabet(s, rng, k=3, pool='', extra_random=6)
            for v in nums:
                r = val(s, v)
                if r[0] != 'ok':
                    continue
                for x in (v, 'ES' + v, v.lower(), 'es ' + v, '-'.join(v)):
                    if val(s, x.upper().replace('ES', '', 1) if x.upper().startswith('ES') else x)[0] != 'ok' and x != v:
                        continue
                    compare('es.nif>=' + s, 'es.nif', x, r)
    elif rel.startswith('iban:'):
        cc = rel.split(':')[1]
        from stdnum import iban
        from vm import c13
        if cc == 'other':
            nums = C.corpus('iban', limit=n * 3, rng=rng)
            for x in variants(nums, '', rng, 'quick'):
                g = C.short(C.outcome(iban.validate, x, check_country=False))
                got = val('iban', x)
                evals += 2
                y = own_clean(x) or ''
                if y[:2] in ('BE', 'ES', 'NO', 'ME'):
                    continue
                if got[0] == 'ok' or g[0] == 'ok':
                    keys.add((rel, x))
                if got != g:
                    add(viols, 'C09|iban|country-without-national-module-differs-from-generic', 'iban.validate(%r) = %r but the generic rules give %r' % (x, got, g), {'rel': rel, 'wrapper': 'iban', 'x': x})
        else:
            nat = cc + '.iban'
            nums = C.corpus(nat, limit=n, rng=rng) + [v for v in C.corpus('iban') if v.upper().replace(' ', '').startswith(cc.upper())][:n]
            extra = c13.iban_generic_only(rng, 40, only_cc=cc.upper())
            for x in variants(nums, '', rng, tier) + extra:
                g = C.short(C.outcome(iban.validate, x, check_country=False))
                nt = val(nat, x)
                got = val('iban', x)
                evals += 3
                exp = g if (g[0] == 'ok' and nt[0] == 'ok') else ('rej',)
                if got[0] == 'ok' or g[0] == 'ok' or nt[0] == 'ok':
                    keys.add((rel, x))
                if g[0] == 'ok' and nt[0] != 'ok':
                    counters['generic_valid_nationally_invalid'] += 1
                if got != exp:
                    add(viols, 'C09|iban:%s|differs-from-generic-and-national' % cc, 'iban.validate(%r) = %r; generic rules %r, %s %r' % (x, got, g, nat, nt),
                        {'rel': rel, 'wrapper': 'iban', 'x': x})
                # the option spelled the other usual ways (positional, 1 / 0): asked to check the country it checks
                # it, asked not to it does not
                for on, how in ((True, 'keyword True'), (1, 'keyword 1'), ('pos', 'positional True')):
                    o_on = C.short(C.outcome(iban.validate, x, True) if on == 'pos' else C.outcome(iban.validate, x, check_country=on))
                    evals += 1
                    if o_on != exp:
                        add(viols, 'C09|iban:%s|check_country-on-differs' % cc, 'iban.validate(%r, check_country %s) = %r; generic rules %r, %s %r' % (x, how, o_on, g, nat, nt),
                            {'rel': rel, 'wrapper': 'iban', 'x': x})
                o_off = C.short(C.outcome(iban.validate, x, check_country=0))
                if o_off != g:
                    add(viols, 'C09|iban:%s|check_country-off-differs' % cc, 'iban.validate(%r, check_country=0) = %r; generic rules %r' % (x, o_off, g),
                        {'rel': rel, 'wrapper': 'iban', 'x': x})
                if nt[0] == 'ok' and g[0] != 'ok':
                    add(viols, 'C09|%s|national-accepts-generic-rejects' % nat, '%s.validate(%r) = %r but the generic IBAN rules reject it' % (nat, x, nt), {'rel': rel, 'wrapper': nat, 'x': x})
    elif rel in ('ch.vat', 'se.vat', 'no.mva', 'fi.ytunnus', 'mc.tva', 'ro.cf', 'sk.rc'):
        con = {'ch.vat': 'ch.uid', 'se.vat': 'se.orgnr', 'no.mva': 'no.orgnr', 'fi.ytunnus': 'fi.alv', 'mc.tva': 'fr.tva', 'ro.cf': 'ro.cui', 'sk.rc': 'cz.rc'}[rel]
        nums = C.corpus(rel, limit=n, rng=rng) + C.corpus(con, limit=n, rng=rng) + C.synth_valid(con, n, rng)
        if rel == 'ro.cf':
            nums += C.corpus('ro.cnp', limit=n, rng=rng)
        suffix = {'ch.vat': ['MWST', 'TVA', 'IVA', 'TPV', 'XYZ', ''], 'se.vat': ['01', '02', ''], 'no.mva': ['MVA', 'mva', 'MWA', '']}.get(rel, [''])
        cands = []
        for v in nums:
            for sfx in suffix:
                cands.append(v + sfx)
                cands.append(v + ' ' + sfx)
        cc = rel.split('.')[0]
        for x in variants(cands, cc if rel != 'mc.tva' else 'fr', rng, 'quick'):
            exp = simple_expected(rel, con, x)
            if exp is None:
                continue
            compare(rel, rel, x, exp)
    elif rel == 'aliases':
        from stdnum.util import get_cc_module
        base = os.path.join(C.REPO, 'stdnum')
        for pkg in sorted(os.listdir(base)):
            init = os.path.join(base, pkg, '__init__.py')
            if not os.path.exists(init):
                continue
            src = open(init, encoding='utf-8').read()
            declared = dict((m.group(2), m.group(1)) for m in re.finditer(r'^from stdnum\.%s import (\w+) as (\w+)' % re.escape(pkg), src, re.M))
            cc = pkg.rstrip('_')
            for alias in ('vat', 'personalid', 'businessid', 'postal_code', 'iban', 'nosuchalias'):
                for form in (cc, cc.upper()):
                    m = C.outcome(get_cc_module, form, alias)
                    evals += 1
                    keys.add((rel, form, alias))
                    want = None
                    if alias in declared:
                        want = 'stdnum.%s.%s' % (pkg, declared[alias])
                    elif os.path.exists(os.path.join(base, pkg, alias + '.py')):
                        want = 'stdnum.%s.%s' % (pkg, alias)
                    gotname = getattr(m[1], '__name__', None) if m[0] == 'ok' else repr(m)
                    if gotname != want:
                        add(viols, 'C09|get_cc_module|alias-differs', 'get_cc_module(%r, %r) is %r, the package declares %r' % (form, alias, gotname, want),
                            {'rel': rel, 'wrapper': 'util.get_cc_module', 'x': [form, alias]})
        for form in ('xx', '', 'stdnum', '..', 'a.b'):
            m = C.outcome(get_cc_module, form, 'vat')
            evals += 1
            if m != ('ok', None):
                add(viols, 'C09|get_cc_module|unknown-country-not-None', 'get_cc_module(%r, "vat") -> %r' % (form, m[:2]), {'rel': rel, 'wrapper': 'util.get_cc_module', 'x': [form, 'vat']})
    return evals


def simple_expected(rel, con, x):
    """Expected outcome of the simple wrappers, from their constituent and the documented extra rule."""
    from stdnum.util import clean
    try:
        if rel == 'fi.ytunnus':
            return val('fi.alv', x)
        if rel == 'sk.rc':
            return val('cz.rc', x)
        if rel == 'ch.vat':
            y = C.get_module('ch.uid').compact(x)
            if len(y) not in (15, 16) or y[12:] not in ('MWST', 'TVA', 'IVA', 'TPV'):
                return ('rej',)
            return ('ok', y) if val('ch.uid', y[:12])[0] == 'ok' else ('rej',)
        if rel == 'se.vat':
            y = clean(x, ' -.').upper().strip()
            if y.startswith('SE'):
                y = y[2:]
            if not y.isascii() or not y.isdigit() or y[-2:] != '01':
                return ('rej',)
            r = val('se.orgnr', y[:-2])
            return ('ok', y) if r[0] == 'ok' and r[1] == y[:-2] else (('rej',) if r[0] != 'ok' else None)
        if rel == 'no.mva':
            y = clean(x, ' ').upper().strip()
            if y.startswith('NO'):
                y = y[2:].strip()
            if not y.endswith('MVA'):
                return ('rej',)
            r = val('no.orgnr', y[:-3])
            return ('ok', r[1] + 'MVA') if r[0] == 'ok' else ('rej',)
        if rel == 'mc.tva':
            r = val('fr.tva', x)
            if r[0] != 'ok' or r[1][2:5] != '000':
                return ('rej',)
            return ('ok', 'FR' + r[1])
        if rel == 'ro.cf':
            y = clean(x, ' -').upper().strip()
            c = y[2:] if y.startswith('RO') else y
            if len(c) == 13:
                return ('ok', y) if val('ro.cnp', c)[0] == 'ok' else ('rej',)
            if 2 <= len(c) <= 10:
                return ('ok', y) if val('ro.cui', y)[0] == 'ok' else ('rej',)
            return ('rej',)
    except Exception:  # noqa: B902
        return ('rej',)
    return None


def work(shard, tier):
    rng = C.rng_for('C09', shard['name'])
    viols = {}
    keys = set()
    counters = {'generic_valid_nationally_invalid': 0}
    evals = rel_work(shard['rel'], tier, rng, viols, keys, counters)
    samples = [list(k) for k in sorted(keys, key=repr)[:2]]
    return {'evaluations': max(evals, 1), 'nontrivial': len(keys), 'violations': list(viols.values()), 'samples': samples,
            'counters': counters, 'sets': {'relations': [shard['rel']]}}


def finish(agg, tier):
    if agg['counters'].get('generic_valid_nationally_invalid', 0) < 10:
        return {'inconclusive': ['fewer than 10 IBANs that pass the generic rules but fail the national check were generated']}
    return {}


def replay(w):
    viols = {}
    rng = C.rng_for('C09', w['rel'])
    counters = {'generic_valid_nationally_invalid': 0}
    rel_work(w['rel'], 'quick', rng, viols, set(), counters)
    return list(viols.values())
