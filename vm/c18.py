"""C18 - the online check application answers every query safely (DESIGN 3, C18).

WSGI conformance monitor (wsgiref.validate) + response oracle.
"""

import html
import html.parser
import importlib.machinery
import importlib.util
import io
import json
import os
import subprocess
import sys
import tempfile
import urllib.parse
import wsgiref.validate

from vm import common as C
from vm import gen

META = {
    'level': 'exploration',
    'rule': ('requests to the real application() loaded from online_check/stdnum.wsgi under wsgiref.validate: (a) corpus + '
             'synthesised valid numbers of every module (reaching info(), format(), compact() and every to_*/get_*), (b) '
             'valid numbers with a markup canary inserted at every sampled position, (c) hostile queries (invalid UTF-8 '
             'percent-escapes, %, %(value)s, NUL, 100 kB, repeated/absent/empty parameters), each in HTML and AJAX mode, as '
             'one long request sequence per process with DOCUMENT_ROOT/SCRIPT_NAME varied after the first request; plus '
             'cold-start trials in which several threads send their first request at once. Oracle: status 200, JSON parses, '
             'result set == independent is_valid sweep, value/results segments cut out with the template as frame, canary '
             'never in tag or attribute position, unescape(value) == submitted number. distinct_nontrivial = distinct '
             '(mode, number of matching modules > 0, number) requests + distinct conversion result kinds seen'),
    'assumptions': ['wsgiref.validate is the WSGI conformance reference', 'urllib.parse.parse_qs defines what "the submitted number" is'],
}

ALLOWED_TAGS = {'li', 'b', 'p', 'br', 'ul', 'i', 'a'}
CANARY = 'zqCANARYqz'
CANARIES = ['<i id=%s>' % CANARY, '"%s=\'1' % CANARY, '&%s;<' % CANARY]


THREAD_REPLICA = False   # this monitor uses a process-wide sys.monitoring probe / has its own thread trials


def shards(tier):
    names = sorted(C.number_modules())
    n = 16 if tier == 'quick' else 48
    out = [{'name': 'req%02d' % i, 'kind': 'req', 'modules': part} for i, part in enumerate(C.chunk(names, n)) if part]
    out += [{'name': 'cold%02d' % i, 'kind': 'cold', 'part': i} for i in range(3 if tier == 'quick' else 12)]
    return out


def add(viols, sig, what, witness):
    if sig in viols:
        viols[sig]['count'] += 1
    else:
        viols[sig] = {'sig': sig, 'what': what, 'count': 1, 'witness': witness}


def load_app():
    path = os.path.join(C.REPO, 'online_check', 'stdnum.wsgi')
    saved = sys.stdout
    loader = importlib.machinery.SourceFileLoader('stdnum_wsgi_under_test', path)
    spec = importlib.util.spec_from_loader('stdnum_wsgi_under_test', loader)
    mod = importlib.util.module_from_spec(spec)
    try:
        loader.exec_module(mod)
    finally:
        sys.stdout = saved        # the script redirects stdout; undo it
    return mod


def environ_for(query, ajax, docroot=None, script='/stdnum.wsgi'):
    env = {
        'REQUEST_METHOD': 'GET', 'SCRIPT_NAME': script, 'PATH_INFO': '', 'QUERY_STRING': query,
        'SERVER_NAME': 'localhost', 'SERVER_PORT': '80', 'SERVER_PROTOCOL': 'HTTP/1.1',
        'wsgi.version': (1, 0), 'wsgi.url_scheme': 'http', 'wsgi.input': io.BytesIO(b''),
        'wsgi.errors': io.StringIO(), 'wsgi.multithread': True, 'wsgi.multiprocess': False, 'wsgi.run_once': False,
        'DOCUMENT_ROOT': docroot if docroot is not None else os.path.join(C.REPO, 'online_check'),
    }
    if ajax:
        env['HTTP_X_REQUESTED_WITH'] = 'XMLHttpRequest'
    return env


def call_app(app, env):
    """Returns (status, headers, body bytes) or raises."""
    got = {}

    def start_response(status, headers, exc_info=None):
        got['status'] = status
        got['headers'] = headers
        return lambda data: None
    it = app(env, start_response)
    try:
        body = b''.join(it)
    finally:
        if hasattr(it, 'close'):
            it.close()
    return got.get('status'), got.get('headers'), body


class ResultsParser(html.parser.HTMLParser):
    def __init__(self):
        html.parser.HTMLParser.__init__(self, convert_charrefs=True)
        self.depth = 0
        self.items = 0
        self.names = []
        self.tags = []
        self.attr_problems = []
        self.in_b = 0
        self.li_first_b = False

    def handle_starttag(self, tag, attrs):
        self.tags.append(tag)
        for k, v in attrs:
            if not (tag == 'a' and k == 'href'):
                self.attr_problems.append((tag, k, v))
            if CANARY in (k or '') or CANARY in (v or ''):
                self.attr_problems.append((tag, k, v))
        if tag == 'li' and self.depth == 0:
            self.items += 1
            self.li_first_b = True
        if tag in ('li', 'ul'):
            self.depth += 1
        if tag == 'b':
            self.in_b += 1
            if self.li_first_b and self.depth == 1:
                self.names.append('')

    def handle_endtag(self, tag):
        if tag in ('li', 'ul'):
            self.depth = max(0, self.depth - 1)
        if tag == 'b':
            self.in_b = max(0, self.in_b - 1)
            self.li_first_b = False

    def handle_data(self, data):
        if self.in_b and self.li_first_b and self.depth == 1 and self.names:
            self.names[-1] += data


def submitted_number(query):
    p = urllib.parse.parse_qs(query)
    if 'number' in p:
        return p['number'][0]
    return None


_all_mods = None


def own_module_discovery():
    """Every importable module under stdnum that has a validate function, found with pkgutil by the harness itself
    (not with the library's get_number_modules(), which is part of what the application relies on)."""
    global _all_mods
    if _all_mods is None:
        import importlib
        import pkgutil
        import warnings
        import stdnum
        _all_mods = {}
        with warnings.catch_warnings():
            warnings.simplefilter('ignore')
            for _l, modname, _ispkg in pkgutil.walk_packages(stdnum.__path__, 'stdnum.'):
                try:
                    m = importlib.import_module(modname)
                except Exception:  # noqa: B902
                    continue
                if hasattr(m, 'validate') and m.__name__ == modname:
                    _all_mods[modname[len('stdnum.'):]] = m
    return _all_mods


def expected_modules(number):
    """Independent sweep: names of the modules whose is_valid() accepts the number."""
    out = []
    for name, mod in own_module_discovery().items():
        if C.outcome(mod.is_valid, number) == ('ok', True):
            out.append(name)
    return out


def check_request(app, template, query, ajax, viols, stats, env_kw=None, label=''):
    w = {'query': query, 'ajax': ajax, 'label': label}
    mode = 'ajax' if ajax else 'html'
    number = submitted_number(query)
    expect = expected_modules(number) if number is not None else []
    try:
        status, headers, body = call_app(wsgiref.validate.validator(app.application), environ_for(query, ajax, **(env_kw or {})))
    except Exception as e:  # noqa: B902
        site = C.site_of(e) or ''
        where = site if site else type(e).__name__
        if isinstance(e, AssertionError):
            add(viols, 'C18|%s|wsgi-conformance' % mode, 'wsgiref.validate: %s (query %r)' % (e, query[:200]), w)
        else:
            add(viols, 'C18|%s|server-error|%s|%s' % (mode, type(e).__name__, where),
                'application() raised %s: %s (query %r, %d matching modules: %s)' % (type(e).__name__, str(e)[:100], query[:200], len(expect), expect[:4]), w)
        return expect
    if status != '200 OK':
        add(viols, 'C18|%s|status' % mode, 'status %r for query %r' % (status, query[:200]), w)
    if ajax:
        try:
            doc = json.loads(body.decode('utf-8'))
            ok = isinstance(doc, list) and all(isinstance(x, dict) for x in doc)
        except Exception:  # noqa: B902
            ok = False
            doc = None
        if not ok:
            add(viols, 'C18|ajax|body-not-json-list', 'AJAX body is not a JSON list of objects (query %r)' % query[:200], w)
            return expect
        got = [x.get('module') for x in doc]
        if sorted(got) != sorted(expect):
            add(viols, 'C18|ajax|result-set-differs', 'query %r: application lists %r, is_valid sweep gives %r' % (query[:120], sorted(got)[:8], sorted(expect)[:8]), w)
        for x in doc:
            for k, v in (x.get('conversions') or {}).items():
                stats['conv_kinds'].add(type(v).__name__)
    else:
        text = body.decode('utf-8', 'replace')
        pre, rest = template.split('%(value)s', 1)
        mid, post = rest.split('%(results)s', 1)
        pre, mid, post = pre.replace('%%', '%'), mid.replace('%%', '%'), post.replace('%%', '%')
        if not (text.startswith(pre) and text.endswith(post) and mid in text[len(pre):]):
            add(viols, 'C18|html|page-frame-broken', 'the response does not consist of the template with two interpolations (query %r)' % query[:200], w)
            return expect
        inner = text[len(pre):len(text) - len(post)]
        # the value segment ends at the first occurrence of mid that leaves a well-formed rest; value has no quotes when escaped
        idx = inner.find(mid)
        value_seg, results_seg = inner[:idx], inner[idx + len(mid):]
        num = number if number is not None else ''
        if any(c in value_seg for c in '<>"') or html.unescape(value_seg) != num:
            add(viols, 'C18|html|value-not-escaped', 'value attribute segment %r does not carry the escaped number %r' % (value_seg[:120], num[:120]), w)
        p = ResultsParser()
        try:
            p.feed(results_seg)
            p.close()
        except Exception as e:  # noqa: B902
            add(viols, 'C18|html|results-unparseable', 'results segment cannot be parsed: %r' % e, w)
            return expect
        canary_attrs = [a for a in p.attr_problems if CANARY in (a[1] or '') or CANARY in (a[2] or '')]
        raw_echo = [c for c in CANARIES if c in num and c in results_seg]
        # any markup-significant character of the submitted text together with its neighbours, found verbatim
        squeezed = ''.join(ch for ch in num if not ch.isspace())
        for i, ch in enumerate(squeezed):
            if ch in '<>&"\'' and 0 < i < len(squeezed) - 1 and squeezed[i - 1].isalnum() and squeezed[i + 1].isalnum():
                frag = squeezed[i - 1:i + 2]
                if frag in results_seg:
                    raw_echo.append(frag)
        if canary_attrs or raw_echo or any(CANARY in t for t in p.tags):
            add(viols, 'C18|html|markup-injected', 'query %r: the submitted text reaches the results list unescaped (raw %r, attributes %r)' % (
                query[:160], raw_echo[:2], canary_attrs[:2]), w)
        elif p.items != len(expect):
            add(viols, 'C18|html|result-set-differs', 'query %r: page lists %d formats, is_valid sweep gives %d (%r)' % (
                query[:120], p.items, len(expect), expect[:6]), w)
    if expect:
        stats['nontrivial'].add((mode, number))
    return expect


def quote(s):
    return urllib.parse.quote(s, safe='', errors='surrogatepass') if isinstance(s, str) else urllib.parse.quote_from_bytes(s)


HOSTILE_QUERIES = [
    '', 'number=', 'number', 'numbe=1', 'number=%', 'number=%%', 'number=%25', 'number=%(value)s', 'number=%25(value)s',
    'number=%25(results)s', 'number=%s', 'number=%d', 'number=%FF%FE', 'number=%C3%28', 'number=%ED%A0%80', 'number=%00',
    'number=1%002', 'number=1&number=2', 'number=9780471117094&number=%3Cb%3E', 'other=1&number=9780471117094', 'number=%E2%80%AE',
    'number=' + '1' * 100000, 'number=' + quote('<script>alert(1)</script>'), 'number=' + quote('"><img src=x onerror=1>'),
    'number=' + quote("' onmouseover='x"), 'number=' + quote('&lt;b&gt;'), 'number=' + quote('&#60;'), 'number=+1+2+3+', 'number=%20',
    'number=a;number=b', '&&&', '=', 'number==', 'number=%u0041', 'NUMBER=9780471117094', 'number[]=1',
    # bytes sent without percent-encoding reach the application as latin-1 decoded text (PEP 3333)
    'number=caf\xe9', 'number=\xe2\x82', 'number=\xff\xfe', 'number=\xe2\x82\xac9780471117094', 'number=9780471117094\x80', '\xc3=\xa9',
]


def req_work(shard, tier, viols, stats, counters, samples):
    app = load_app()
    template = open(os.path.join(C.REPO, 'online_check', 'template.html'), 'rb').read().decode('utf-8')
    rng = C.rng_for('C18', shard['name'])
    evals = 0
    first = True
    queries = []
    for name in shard['modules']:
        nums = C.corpus(name, limit=4 if tier == 'quick' else 20, rng=rng) + C.synth_valid(name, 8 if tier == 'quick' else 60, rng)
        # valid numbers that themselves contain markup-significant characters (e.g. company names with &)
        specials = [v for v in C.corpus(name) if any(ch in v for ch in '<>&"\'')][:4]
        if hasattr(C.get_module(name), 'split'):
            # range-boundary numbers of the modules that hyphenate by range tables
            b = C.synth_boundaries(name, rng, k=1 if tier == 'quick' else 4)
            specials += rng.sample(b, min(len(b), 60 if tier == 'quick' else 600))
        for v in nums + specials:
            queries.append(('valid:' + name, 'number=' + quote(v)))
        for v in nums[:2]:
            for can in CANARIES + ['%%(%s)s' % CANARY]:
                for p in gen.positions(len(v), 'quick', rng, extra=0)[:5 if tier == 'quick' else 9]:
                    queries.append(('canary:' + name, 'number=' + quote(v[:p] + can + v[p:])))
        # inputs of the classes that make a validator leave with a stray exception (any one module doing so fails
        # the whole request): date-forced candidates, foreign digits and letters, extreme field values
        from vm import c12
        mod = C.get_module(name)
        stray = []
        pool = []
        if name in c12.SLICES:
            pool += c12.date_sources(name, mod, rng, 2, require_valid=False)
        pool += [x for _cls, _pc, x in gen.hostile_strings(nums[:4], 'quick', rng) if len(x) < 200]
        pool += C.synth_field_extremes(name, rng, k=1, raw=True, cap=200)
        # pre-screen with direct calls (one module instead of all of them per request): every input on which this
        # module's is_valid() leaves with a stray exception is sent through the application, plus a sample of the rest
        seen_sites = {}
        for x in pool:
            o = C.outcome(mod.is_valid, x)
            if o[0] == 'exc':
                k2 = (o[1], o[2])
                if seen_sites.get(k2, 0) < 3:
                    seen_sites[k2] = seen_sites.get(k2, 0) + 1
                    stray.append(x)
        counters['prescreened_inputs'] = counters.get('prescreened_inputs', 0) + len(pool)
        counters['prescreen_stray_exceptions'] = counters.get('prescreen_stray_exceptions', 0) + len(stray)
        stray += rng.sample(pool, min(len(pool), 20 if tier == 'quick' else 400))
        for v in stray:
            queries.append(('stray:' + name, 'number=' + quote(v)))
    if shard['name'].endswith('00'):
        queries += [('hostile', q) for q in HOSTILE_QUERIES]
    rng.shuffle(queries)
    for label, q in queries:
        for ajax in (False, True):
            kw = None
            if not first:
                # the template is cached after the first request: later requests may come with any document root
                kw = rng.choice([None, {'docroot': '/nonexistent', 'script': '/x/y.wsgi'}, {'docroot': '', 'script': ''}])
            first = False
            expect = check_request(app, template, q, ajax, viols, stats, kw, label)
            evals += 1
            counters['requests'] += 1
            if expect:
                counters['requests_with_results'] += 1
            if label.startswith('canary') and expect:
                counters['canary_requests_with_results'] += 1
        if len(samples) < 2 and label.startswith('canary') and expect:
            samples.append({'query': q[:150], 'matching_modules': expect[:5]})
    return evals


def cold_work(shard, tier, viols, stats, counters, samples):
    """Several threads send their first request at the same time in a fresh process."""
    rng = C.rng_for('C18', shard['name'])
    evals = 0
    trials = 3 if tier == 'quick' else 10
    here = os.path.dirname(os.path.abspath(__file__))
    for t in range(trials):
        nums = []
        for name in rng.sample(sorted(C.number_modules()), 6):
            nums += C.corpus(name, limit=1, rng=rng)
        spec = {'numbers': nums, 'nthreads': rng.choice((2, 4, 8)), 'seed': '%s:%d' % (shard['name'], t), 'yieldp': rng.choice((0.0, 0.02, 0.1))}
        C.scratch_dir('C18')
        with tempfile.NamedTemporaryFile('w', suffix='.json', delete=False, dir=C.scratch_dir('C18')) as f:
            json.dump(spec, f)
            path = f.name
        try:
            p = subprocess.run([sys.executable, '-B', os.path.join(here, 'wsgitrial.py'), path], stdout=subprocess.PIPE, stderr=subprocess.PIPE, timeout=600)
            res = json.loads(p.stdout.decode().strip().splitlines()[-1])
        except Exception as e:  # noqa: B902
            counters['cold_trials_failed'] += 1
            stats.setdefault('errors', set()).add(repr(e)[:200])
            os.unlink(path)
            continue
        os.unlink(path)
        counters['cold_trials'] += 1
        for r in res['results']:
            evals += 1
            number = r['number']
            expect = sorted(expected_modules(number))
            if r.get('error'):
                add(viols, 'C18|cold-threads|server-error|%s' % r['error'].split(':')[0], '%d threads, first requests at once: number %r -> %s' % (
                    spec['nthreads'], number, r['error']), {'kind': 'cold', 'trial': spec})
            elif sorted(r['modules']) != expect:
                add(viols, 'C18|cold-threads|result-set-differs', '%d threads, first requests at once: number %r lists %r, sweep gives %r' % (
                    spec['nthreads'], number, sorted(r['modules'])[:6], expect[:6]), {'kind': 'cold', 'trial': spec})
            if expect:
                stats['nontrivial'].add(('cold', number, t))
    return evals


def work(shard, tier):
    viols = {}
    stats = {'nontrivial': set(), 'conv_kinds': set()}
    counters = {'requests': 0, 'requests_with_results': 0, 'canary_requests_with_results': 0, 'cold_trials': 0, 'cold_trials_failed': 0}
    samples = []
    if shard['kind'] == 'req':
        evals = req_work(shard, tier, viols, stats, counters, samples)
    else:
        evals = cold_work(shard, tier, viols, stats, counters, samples)
    return {'evaluations': evals, 'nontrivial': len(stats['nontrivial']), 'violations': list(viols.values()), 'samples': samples,
            'counters': counters, 'sets': {'conversion_result_kinds': sorted(stats['conv_kinds']), 'errors': sorted(stats.get('errors', ()))}}


def finish(agg, tier):
    inc = []
    c = agg['counters']
    if c.get('requests_with_results', 0) < 100:
        inc.append('fewer than 100 requests reached info() of a module')
    if c.get('canary_requests_with_results', 0) < 5:
        inc.append('the markup canary never reached the results list')
    if c.get('cold_trials', 0) < 3:
        inc.append('cold-start trials did not run: %s' % list(agg['sets'].get('errors', ()))[:2])
    return {'inconclusive': inc}


def replay(w):
    viols = {}
    if w.get('kind') == 'cold':
        stats = {'nontrivial': set(), 'conv_kinds': set()}
        counters = {'cold_trials': 0, 'cold_trials_failed': 0}
        # a race: give it a few attempts
        here = os.path.dirname(os.path.abspath(__file__))
        for _ in range(6):
            C.scratch_dir('C18')
            with tempfile.NamedTemporaryFile('w', suffix='.json', delete=False, dir=C.scratch_dir('C18')) as f:
                json.dump(w['trial'], f)
                path = f.name
            p = subprocess.run([sys.executable, '-B', os.path.join(here, 'wsgitrial.py'), path], stdout=subprocess.PIPE, stderr=subprocess.PIPE, timeout=600)
            os.unlink(path)
            res = json.loads(p.stdout.decode().strip().splitlines()[-1])
            for r in res['results']:
                if r.get('error') or sorted(r['modules']) != sorted(expected_modules(r['number'])):
                    add(viols, 'C18|cold-threads|replay', repr(r)[:200], w)
            if viols:
                break
        return list(viols.values())
    app = load_app()
    template = open(os.path.join(C.REPO, 'online_check', 'template.html'), 'rb').read().decode('utf-8')
    stats = {'nontrivial': set(), 'conv_kinds': set()}
    check_request(app, template, w['query'], w['ajax'], viols, stats, None, w.get('label', ''))
    return list(viols.values())
