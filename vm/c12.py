"""C12 - derived attributes are total and consistent on valid numbers (DESIGN 3, C12)."""

import datetime
import re

from vm import common as C
from vm import calls

META = {
    'level': 'exploration',
    'rule': ('getters are discovered by introspection (get_*, info, split, guess_*, *_type, is_* other than is_valid, one '
             'required parameter); for every valid number (corpus + synthesised: century markers, leap days, unknown-date '
             'encodings, rare alphabet characters, digits-only shapes, registry-derived prefixes) in canonical and original '
             'presentation and under a clock sweep for clock-reading modules: the getter returns or raises a '
             'ValidationError; birth dates agree with the digits (per-module field map written from the module '
             'documentation) and with get_birth_year/get_birth_month; gender in {M, F}; split() parts concatenate to the '
             'canonical number. distinct_nontrivial = distinct (module, getter, result kind, date cell) tuples'),
    'assumptions': ['field maps are the harness\'s reading of each module\'s documentation'],
}

GETTER_RE = re.compile(r'^(get_|info$|split$|guess_|is_(?!valid))|_type$')


def dig(v):
    return ''.join(c for c in v if c.isdigit())


def _omo(s):
    """it.codicefiscale omocodia letters -> digits."""
    return ''.join('0123456789'['LMNPQRSTUV'.index(c)] if c in 'LMNPQRSTUV' else c for c in s)


# module -> function(canonical number) -> (year or 2-digit year, month, day) as encoded, after the documented reductions
FIELDS = {
    'be.nn': lambda v: (int(v[0:2]), int(v[2:4]), int(v[4:6])),
    'be.bis': lambda v: (int(v[0:2]), int(v[2:4]) % 20, int(v[4:6])),
    'be.ssn': lambda v: (int(v[0:2]), int(v[2:4]) % 20, int(v[4:6])),
    'bg.egn': lambda v: (int(v[0:2]), int(v[2:4]) % 20, int(v[4:6])),
    'cn.ric': lambda v: (int(v[6:10]), int(v[10:12]), int(v[12:14])),
    'cu.ni': lambda v: (int(v[0:2]), int(v[2:4]), int(v[4:6])),
    'cz.rc': lambda v: (int(v[0:2]), int(v[2:4]) % 50 % 20, int(v[4:6])),
    'sk.rc': lambda v: (int(v[0:2]), int(v[2:4]) % 50 % 20, int(v[4:6])),
    'dk.cpr': lambda v: (int(v[4:6]), int(v[2:4]), int(v[0:2])),
    'ee.ik': lambda v: (int(v[1:3]), int(v[3:5]), int(v[5:7])),
    'lt.asmens': lambda v: (int(v[1:3]), int(v[3:5]), int(v[5:7])),
    'gr.amka': lambda v: (int(v[4:6]), int(v[2:4]), int(v[0:2])),
    'id.nik': lambda v: (int(v[10:12]), int(v[8:10]), int(v[6:8]) % 40),
    'it.codicefiscale': lambda v: (int(_omo(v[6:8])), 'ABCDEHLMPRST'.index(v[8]) + 1, int(_omo(v[9:11])) % 40),
    'kr.rrn': lambda v: (int(v[0:2]), int(v[2:4]), int(v[4:6])),
    'lv.pvn': lambda v: (int(dig(v)[4:6]), int(dig(v)[2:4]), int(dig(v)[0:2])),
    'mx.curp': lambda v: (int(v[4:6]), int(v[6:8]), int(v[8:10])),
    'my.nric': lambda v: (int(v[0:2]), int(v[2:4]), int(v[4:6])),
    'no.fodselsnummer': lambda v: (int(v[4:6]), int(v[2:4]) % 40, int(v[0:2]) % 40),
    'pl.pesel': lambda v: (int(v[0:2]), int(v[2:4]) % 20, int(v[4:6])),
    'ro.cnp': lambda v: (int(v[1:3]), int(v[3:5]), int(v[5:7])),
    'se.personnummer': lambda v: ((int(dig(v)[0:4]), int(dig(v)[4:6]), int(dig(v)[6:8])) if len(dig(v)) == 12 else
                                  (int(dig(v)[0:2]), int(dig(v)[2:4]), int(dig(v)[4:6]))),
    'si.emso': lambda v: (int(v[4:7]) % 100, int(v[2:4]), int(v[0:2])),
    'za.idnr': lambda v: (int(v[0:2]), int(v[2:4]), int(v[4:6])),
}


# where the raw two-digit (or longer) year / month / day fields sit in the canonical number
SLICES = {
    'be.nn': ((0, 2), (2, 4), (4, 6)), 'be.bis': ((0, 2), (2, 4), (4, 6)), 'be.ssn': ((0, 2), (2, 4), (4, 6)),
    'bg.egn': ((0, 2), (2, 4), (4, 6)), 'cn.ric': ((6, 10), (10, 12), (12, 14)), 'cu.ni': ((0, 2), (2, 4), (4, 6)),
    'cz.rc': ((0, 2), (2, 4), (4, 6)), 'sk.rc': ((0, 2), (2, 4), (4, 6)), 'dk.cpr': ((4, 6), (2, 4), (0, 2)),
    'ee.ik': ((1, 3), (3, 5), (5, 7)), 'lt.asmens': ((1, 3), (3, 5), (5, 7)), 'gr.amka': ((4, 6), (2, 4), (0, 2)),
    'id.nik': ((10, 12), (8, 10), (6, 8)), 'kr.rrn': ((0, 2), (2, 4), (4, 6)), 'mx.curp': ((4, 6), (6, 8), (8, 10)),
    'my.nric': ((0, 2), (2, 4), (4, 6)), 'no.fodselsnummer': ((4, 6), (2, 4), (0, 2)), 'pl.pesel': ((0, 2), (2, 4), (4, 6)),
    'ro.cnp': ((1, 3), (3, 5), (5, 7)), 'si.emso': ((5, 7), (2, 4), (0, 2)), 'za.idnr': ((0, 2), (2, 4), (4, 6)),
    'se.personnummer': ((0, 2), (2, 4), (4, 6)),
}
TARGET_DATES = [(85, 2, 29), (0, 2, 29), (96, 2, 29), (4, 2, 29), (99, 12, 31), (0, 1, 1), (85, 0, 0), (85, 2, 30), (85, 4, 31),
                (85, 13, 1), (85, 0, 15), (85, 6, 0), (0, 0, 1), (0, 0, 0), (0, 1, 0), (99, 0, 1), (0, 2, 28), (37, 12, 31), (58, 1, 1), (54, 1, 1), (53, 12, 31)]


def shards(tier):
    names = []
    for name, mod in sorted(C.number_modules().items()):
        if any(GETTER_RE.search(f) for f in calls.public_functions(mod)):
            names.append(name)
    n = 24 if tier == 'quick' else 48
    return [{'name': 'm%02d' % i, 'modules': part} for i, part in enumerate(C.chunk(names, n)) if part]


def add(viols, sig, what, witness):
    if sig in viols:
        viols[sig]['count'] += 1
    else:
        viols[sig] = {'sig': sig, 'what': what, 'count': 1, 'witness': witness}


def registry_witnesses(name, mod, rng, k):
    """Valid numbers built from registry prefixes the corpus does not contain (unknown / rare registry branches)."""
    import os
    src = open(mod.__file__, encoding='utf-8').read()
    m = re.search(r"numdb\.get\('([^']+)'\)", src)
    if not m:
        return []
    from vm import datfile as D
    path = os.path.join(C.REPO, 'stdnum', m.group(1) + '.dat')
    if not os.path.exists(path):
        return []
    roots, entries = D.parse_text(open(path, encoding='utf-8').read(), collect_errors=[])
    out = []
    base = [c for c in (C.outcome(mod.validate, v) for v in C.corpus(name, limit=4, rng=rng)) if c[0] == 'ok' and isinstance(c[1], str)]
    if not base:
        return []
    picks = rng.sample(entries, min(len(entries), k * 6))
    # sibling pairs under one parent: lookups that share a prefix but end in different sub-entries
    parents = [e for e in entries if len(e.children) >= 2]
    for par in rng.sample(parents, min(len(parents), max(2, k // 2))):
        picks = rng.sample(par.children, 2) + picks
    for e in picks:
        prefix = ''
        p = e.parent
        chain = []
        while p is not None:
            chain.append(p)
            p = p.parent
        for a in reversed(chain):
            prefix += a.ranges[0][0]
        head = prefix + rng.choice(e.ranges)[0]
        for b in base[:2]:
            t = b[1]
            alnum = [i for i, ch in enumerate(t) if ch.isalnum()]
            if len(head) > len(alnum):
                continue
            s = list(t)
            for ch, i in zip(head, alnum):
                s[i] = ch
            cand = ''.join(s)
            ok = C.outcome(mod.is_valid, cand) == ('ok', True)
            if not ok:
                cand = C._repair(mod, cand)
                if cand is None or not ''.join(c for c in cand if c.isalnum()).upper().startswith(head.upper()):
                    continue
            o = C.outcome(mod.validate, cand)
            if o[0] == 'ok' and isinstance(o[1], str) and o[1] not in out:
                out.append(o[1])
        if len(out) >= k:
            break
    return out


def date_sources(name, mod, rng, k, require_valid=True):
    """Valid numbers with forced date fields: leap days, month/day extremes, unknown parts (00), century markers."""
    out = []
    f = FIELDS.get(name)
    if f is None:
        return out
    base = [c[1] for c in (C.outcome(mod.validate, v) for v in C.corpus(name, limit=6, rng=rng)) if c[0] == 'ok' and isinstance(c[1], str)]
    sl = SLICES.get(name)
    if sl is not None:
        for b in base[:3 if k < 10 else 8]:
            (y0, y1), (m0, m1), (d0, d1) = sl
            if len(b) < max(y1, m1, d1) or not (b[y0:y1] + b[m0:m1] + b[d0:d1]).isdigit():
                continue
            try:
                _y, mred, dred = f(b)
            except Exception:  # noqa: B902
                continue
            moff = int(b[m0:m1]) - mred      # keep the documented offset family of this number (+20/+40/+50 ...)
            doff = int(b[d0:d1]) - dred
            for (Y, M, D) in TARGET_DATES:
                s = list(b)
                s[y0:y1] = list(('%0' + str(y1 - y0) + 'd') % (Y if y1 - y0 == 2 else 1900 + Y))
                s[m0:m1] = list('%02d' % ((M + moff) % 100))
                s[d0:d1] = list('%02d' % ((D + doff) % 100))
                cand = ''.join(s)
                if not require_valid:
                    # raw candidates with every ending (the check characters are usually last): the caller wants inputs, not valid numbers
                    out.append(cand)
                    if cand[-2:].isdigit():
                        out.extend(cand[:-2] + '%02d' % e for e in range(100))
                    # the sign between date and serial carries the century in some formats (- / +, or none)
                    for a, b2 in (('-', '+'), ('+', '-')):
                        if a in cand[1:-1]:
                            alt = cand.replace(a, b2, 1)
                            out.append(alt)
                            if alt[-1:].isdigit():
                                out.extend(alt[:-1] + str(e) for e in range(10))
                    continue
                if C.outcome(mod.is_valid, cand) != ('ok', True):
                    cand = C._repair(mod, cand)
                    if cand is None or cand[min(y0, m0, d0):max(y1, m1, d1)] != ''.join(s)[min(y0, m0, d0):max(y1, m1, d1)]:
                        continue
                o = C.outcome(mod.validate, cand)
                if o[0] == 'ok' and isinstance(o[1], str) and o[1] not in out:
                    out.append(o[1])
    for b in base[:4]:
        dpos = [i for i, ch in enumerate(b) if ch.isdigit()]
        for _ in range(k):
            s = list(b)
            # overwrite 2-3 digit positions among the first 8 digit positions with extreme values
            for i in rng.sample(dpos[:8], min(3, len(dpos[:8]))):
                s[i] = rng.choice('0012399')
            cand = ''.join(s)
            if C.outcome(mod.is_valid, cand) != ('ok', True):
                cand = C._repair(mod, cand)
                if cand is None:
                    continue
            o = C.outcome(mod.validate, cand)
            if o[0] == 'ok' and isinstance(o[1], str) and o[1] not in out:
                out.append(o[1])
    return out


def check_number(name, mod, getters, v, x, viols, cells, clock=None):
    evals = 0
    w = {'module': name, 'number': x, 'canonical': v, 'clock': clock.isoformat() if clock else None}
    results = {}
    for gname, g in getters.items():
        o = C.outcome(g, x)
        evals += 1
        results[gname] = o
        kind = 'value' if o[0] == 'ok' and o[1] is not None else 'None' if o[0] == 'ok' else o[0]
        cells.add((name, gname, kind))
        if o[0] == 'exc':
            add(viols, 'C12|%s.%s|raises-%s|%s' % (name, gname, o[1], o[2]), '%s.%s(%r) raised %s (%s) at %s although validate() accepts the number' % (
                name, gname, x, o[1], o[3], o[2]), dict(w, getter=gname))
            continue
        if o[0] != 'ok':
            continue
        val = o[1]
        if gname == 'get_gender' and val is None and name in ('be.bis', 'be.ssn') and v[2:4].isdigit() and 40 <= int(v[2:4]) <= 52:
            # BIS numbers: month + 40 means the gender is known (month + 20: unknown)
            add(viols, 'C12|%s.get_gender|None-although-encoded' % name, '%s.get_gender(%r) is None but month field %s says the gender is known' % (name, x, v[2:4]), dict(w, getter=gname))
        if gname == 'get_gender' and val not in ('M', 'F') and not (val is None and name in ('be.bis', 'be.ssn', 'be.nn')):
            add(viols, 'C12|%s.get_gender|not-M-or-F' % name, '%s.get_gender(%r) = %r' % (name, x, val), dict(w, getter=gname))
        if name == 'mac' and gname == 'get_oui' and isinstance(val, str):
            hexs = ''.join(c for c in v if c.isalnum()).upper()
            iab = C.outcome(getters['get_iab'], x) if 'get_iab' in getters else ('ok', hexs[len(val):])
            if not hexs.startswith(val) or (iab[0] == 'ok' and val + str(iab[1]) != hexs):
                add(viols, 'C12|mac|oui-and-iab-do-not-make-up-the-address', 'mac.get_oui(%r) = %r, get_iab = %r, address %r' % (x, val, iab[1:2], hexs), dict(w, getter=gname))
        if gname == 'split':
            parts = list(val) if isinstance(val, (list, tuple)) else None
            if parts is None:
                add(viols, 'C12|%s.split|returns-%s' % (name, type(val).__name__), '%s.split(%r) = %r for a number validate() accepts' % (name, x, val), dict(w, getter=gname))
            elif not all(isinstance(p, str) for p in parts) or ''.join(parts) != v:
                add(viols, 'C12|%s.split|parts-do-not-concatenate|%d-character-number' % (name, len(v)), '%s.split(%r) = %r does not concatenate to the canonical number %r' % (
                    name, x, val, v), dict(w, getter=gname))
        if gname == 'get_birth_date' and val is not None:
            if not isinstance(val, datetime.date):
                add(viols, 'C12|%s.get_birth_date|not-a-date' % name, '%s.get_birth_date(%r) = %r' % (name, x, val), dict(w, getter=gname))
                continue
            f = FIELDS.get(name)
            if f is not None:
                try:
                    y, m, d = f(v)
                except Exception:  # noqa: B902
                    y = None
                if y is not None:
                    okdate = (val.month == m and val.day == d and (val.year == y if y > 99 else val.year % 100 == y))
                    cells.add((name, 'date', val.year // 100, 'leap' if (val.month, val.day) == (2, 29) else 'm%d' % val.month))
                    if not okdate:
                        add(viols, 'C12|%s.get_birth_date|disagrees-with-digits' % name,
                            '%s.get_birth_date(%r) = %s but the number encodes year %s month %s day %s' % (name, x, val.isoformat(), y, m, d), dict(w, getter=gname))
    # year / month getters agree with the date
    bd = results.get('get_birth_date')
    if bd and bd[0] == 'ok' and isinstance(bd[1], datetime.date):
        by = results.get('get_birth_year')
        bm = results.get('get_birth_month')
        if by and by[0] == 'ok' and by[1] is not None and by[1] != bd[1].year:
            add(viols, 'C12|%s|birth-year-differs-from-date' % name, '%s: get_birth_year(%r) = %r but get_birth_date = %s' % (name, x, by[1], bd[1]), w)
        if bm and bm[0] == 'ok' and bm[1] is not None and bm[1] != bd[1].month:
            add(viols, 'C12|%s|birth-month-differs-from-date' % name, '%s: get_birth_month(%r) = %r but get_birth_date = %s' % (name, x, bm[1], bd[1]), w)
    return evals


def work(shard, tier):
    mods = C.number_modules()
    C.install_clock()
    clock_mods = set(C.clock_reading_modules()) | {'be.bis', 'be.ssn'}
    viols = {}
    cells = set()
    evals = 0
    counters = {'valid_numbers': 0, 'registry_derived_numbers': 0, 'date_forced_numbers': 0}
    samples = []
    for name in shard['modules']:
        mod = mods[name]
        rng = C.rng_for('C12', name)
        getters = {f: g for f, g in calls.public_functions(mod).items() if GETTER_RE.search(f)}
        n = 10 if tier == 'quick' else 500
        base = C.corpus(name, limit=n, rng=rng)
        pairs = []
        for x in base:
            o = C.outcome(mod.validate, x)
            if o[0] == 'ok' and isinstance(o[1], str):
                pairs.append((o[1], x))
        extra = C.synth_valid(name, n, rng, base=base) + C.synth_alphabet(name, rng, k=2) + C.synth_digits_only(name, rng, k=3)
        extra += C.synth_field_extremes(name, rng, k=1 if tier == 'quick' else 3, raw=False, cap=150 if tier == 'quick' else 2000)[:200 if tier == 'quick' else 3000]
        extra += C.synth_table_boundaries(name, rng, cap=300 if tier == 'quick' else 4000)
        # numbers on the branches of the registry the module consumes, including values next to / outside the
        # registered children of an entry (kept if the module accepts them: its getters must then cope)
        probes = C.registry_probe_inputs(name, rng, 30 if tier == 'quick' else 400)
        if len(probes) > (1500 if tier == 'quick' else 40000):
            probes = rng.sample(probes, 1500 if tier == 'quick' else 40000)
        vopts = [{}] + [o for o in C.validate_options(mod) if o]
        extra += [x for x in probes if any(C.outcome(mod.validate, x, **o)[0] == 'ok' for o in vopts)]
        extra += C.synth_constant_prefixes(name, rng, cap=40 if tier == 'quick' else 400)
        if 'split' in getters:
            extra += C.synth_boundaries(name, rng, k=2 if tier == 'quick' else 6)
        reg = registry_witnesses(name, mod, rng, 8 if tier == 'quick' else 300)
        dat = date_sources(name, mod, rng, 6 if tier == 'quick' else 80)
        counters['registry_derived_numbers'] += len(reg)
        counters['date_forced_numbers'] += len(dat)
        for v in extra + reg + dat:
            pairs.append((v, v))
        # other accepted presentations of the same numbers (separators incl. '+', case, century digits in front)
        from vm import gen
        seen_v = []
        for v in [p[0] for p in pairs[:40]] + dat[:10]:
            if v in seen_v:
                continue
            seen_v.append(v)
            cands = [x for _cls, x in gen.decorations(v, name, 'quick', rng, pool=list(' -+./'))] if len(seen_v) <= 3 else []
            if v[:1].isdigit():
                cands += [c + v for c in ('18', '19', '20')]
                cands += [c + v.replace('-', '+') for c in ('18', '19', '20')] + [v.replace('-', '+'), v.replace('+', '-')]
            for x in cands:
                o = C.outcome(mod.validate, x)
                if o[0] == 'ok' and isinstance(o[1], str) and (o[1], x) not in pairs:
                    pairs.append((o[1], x))
        for v, x in pairs:
            counters['valid_numbers'] += 1
            if any(C.outcome(mod.validate, v, **o) == ('ok', v) for o in vopts):
                evals += check_number(name, mod, getters, v, v, viols, cells)
            else:
                counters['canonical_forms_not_fixed_points_left_to_C02'] = counters.get('canonical_forms_not_fixed_points_left_to_C02', 0) + 1
            if x != v:
                evals += check_number(name, mod, getters, v, x, viols, cells)
        if name in clock_mods:
            for d in C.CLOCK_SWEEP:
                C.set_clock(d)
                for v, x in pairs[:12 if tier == 'quick' else 80]:
                    if C.outcome(mod.validate, v)[0] == 'ok':
                        evals += check_number(name, mod, getters, v, v, viols, cells, clock=d)
            C.set_clock(None)
        if pairs and len(samples) < 2:
            g0 = sorted(getters)[0]
            samples.append({'module': name, 'getter': g0, 'number': pairs[0][0], 'result': C.jsonable(C.outcome(getters[g0], pairs[0][0])[:2])})
    return {'evaluations': max(evals, 1), 'nontrivial': len(cells), 'violations': list(viols.values()), 'samples': samples,
            'counters': counters, 'sets': {'modules_reached': shard['modules']}}


def replay(w):
    mods = C.number_modules()
    C.install_clock()
    mod = mods[w['module']]
    if w.get('clock'):
        C.set_clock(datetime.date.fromisoformat(w['clock']))
    getters = {f: g for f, g in calls.public_functions(mod).items() if GETTER_RE.search(f)}
    viols = {}
    check_number(w['module'], mod, getters, w['canonical'], w['number'], viols, set())
    C.set_clock(None)
    return list(viols.values())
