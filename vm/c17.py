"""C17 - single typing errors in check-digit protected identifiers are rejected (DESIGN 3, C17).

Delegation probe + neighbourhood oracle: probes on the generic algorithms' checksum() show which span of a
valid number its module hands to Luhn/Verhoeff/Damm/ISO 7064; every single same-class substitution in the
protected span (all positions for the listed modules) and, where the statement claims it, every adjacent swap
of different digits must be rejected by is_valid().
"""

from vm import common as C

META = {
    'level': 'exploration',
    'rule': ('listed modules (isbn, ean, issn, ismn, imei-15, isni, iban, lei, iso11649, grid, the 8 algorithm modules, '
             'ca.sin, fr.siren, il.idnr, se.orgnr, in_.aadhaar, in_.vid, hr.oib, de.idnr, de.vat): all positions; every '
             'other module whose validate() is observed (sys.monitoring probe on the algorithms\' checksum()) to hand a '
             'span of the number to a generic algorithm: the covered positions. Valid numbers = corpus + synthesised; '
             'exhaustive neighbourhood of each: every other digit at digit positions, every other letter at letter '
             'positions, adjacent swaps of different digits for the transposition list. distinct_nontrivial = distinct '
             '(module, position, original, replacement) and (module, position, pair) cells'),
    'assumptions': ['validity of the starting numbers is judged by the library'],
}

LISTED = ['isbn', 'ean', 'issn', 'ismn', 'imei', 'isni', 'iban', 'lei', 'iso11649', 'grid',
          'ca.sin', 'fr.siren', 'il.idnr', 'se.orgnr', 'in_.aadhaar', 'in_.vid', 'hr.oib', 'de.idnr', 'de.vat']
TRANSPOSITION_LISTED = {'isbn': 10, 'issn': None, 'isni': None, 'iban': None, 'lei': None, 'iso11649': None}
ALGO_FUNCS = {
    'luhn': 'luhn', 'verhoeff': 'verhoeff', 'damm': 'damm',
    'iso7064.mod_11_2': 'iso7064', 'iso7064.mod_37_2': 'iso7064', 'iso7064.mod_11_10': 'iso7064',
    'iso7064.mod_37_36': 'iso7064', 'iso7064.mod_97_10': 'iso7064',
}

# documented alternative rules that make a neighbour valid for another reason
DOCUMENTED_ESCAPES = {
    'fr.siret': 'La Poste establishments (SIREN 356000000) are validated with a plain digit sum instead of Luhn',
    'nl.btw': 'two documented schemes: the first nine digits are a BSN (mod 11) or the whole number passes mod 97-10',
    'id.npwp': 'two documented schemes: 0 + old 15-digit number (Luhn on the first part) or a 16-digit NIK',
    'do.cedula': 'documented whitelist of issued numbers whose check digit is wrong',
}


_CEDULA_SNAPSHOT = []


def _cedula_snapshot():
    """The documented whitelist of do.cedula as it stood when the properties were written (578 numbers): numbers a
    later tree adds to the module's list are not exempt."""
    if not _CEDULA_SNAPSHOT:
        import os
        with open(os.path.join(os.path.dirname(os.path.abspath(__file__)), 'data', 'do_cedula_whitelist.txt')) as f:
            _CEDULA_SNAPSHOT.extend(x.strip() for x in f if x.strip())
    return set(_CEDULA_SNAPSHOT)


def escapes(name, v, t):
    """True if neighbour t of valid v is valid under the *other* rule the module documents (the rule is evaluated
    here, independently of the module)."""
    if name == 'fr.siret':
        # documented: establishments of La Poste (SIREN 356000000, except the head office 35600000000048) are
        # checked with "digit sum is a multiple of 5" instead of Luhn
        def la_poste(x):
            return x.startswith('356000000') and x != '35600000000048'
        if la_poste(t):
            return t.isdigit() and sum(int(c) for c in t) % 5 == 0
        return la_poste(v)      # v under the digit-sum rule, t (the head office) under Luhn
    if name == 'id.npwp':
        # 16-digit numbers not starting with 0 are NIK numbers, validated by a different module
        return len(t) == 16 and (t[0] != '0') != (v[0] != '0')
    if name == 'do.cedula':
        snap = _cedula_snapshot()
        return t in snap or v in snap
    if name == 'nl.btw':
        from stdnum.nl import bsn
        from stdnum.iso7064 import mod_97_10
        # v and t are accepted by different schemes
        return bsn.is_valid(t[:9]) != bsn.is_valid(v[:9]) or mod_97_10.is_valid('NL' + t) != mod_97_10.is_valid('NL' + v)
    return False


THREAD_REPLICA = False   # this monitor uses a process-wide sys.monitoring probe / has its own thread trials


LOOKALIKE_DIGITS = {}


def load_lookalikes():
    """Characters that the library's clean() turns into an ASCII digit, with their Unicode decimal value."""
    if LOOKALIKE_DIGITS:
        return
    import unicodedata
    from stdnum import util
    allc = []
    value = {}
    for cp in list(range(0x80, 0x3000)) + list(range(0xFF00, 0xFFF0)) + list(range(0x1D7CE, 0x1D800)) + list(range(0x1FBF0, 0x1FBFA)):
        c = chr(cp)
        try:
            r = util.clean(c)
        except Exception:  # noqa: B902
            continue
        if r != c and len(r) == 1 and r in '0123456789':
            d = unicodedata.decimal(c, None)
            if d is None:
                d = unicodedata.digit(c, None)
            if d is not None:
                allc.append(c)
                value[c] = d
    LOOKALIKE_DIGITS['all'] = allc
    LOOKALIKE_DIGITS['value'] = value


def shards(tier):
    # eu.vat and vatin only dispatch to national modules, each of which is monitored itself (C09 ties the
    # wrappers to them); their neighbours can fall under another country's or scheme's rule
    names = sorted(n for n in C.number_modules() if n not in C.GENERIC_ALGOS and n not in ('eu.vat', 'vatin'))
    n = 32 if tier == 'quick' else 64
    return [{'name': 'm%02d' % i, 'modules': part} for i, part in enumerate(C.chunk(names, n)) if part]


def add(viols, sig, what, witness):
    if sig in viols:
        viols[sig]['count'] += 1
    else:
        viols[sig] = {'sig': sig, 'what': what, 'count': 1, 'witness': witness}


def covered_positions(v, args):
    """Positions of v covered by the strings handed to a generic algorithm."""
    cov = set()
    unmapped = 0
    for a in args:
        if not isinstance(a, str) or not a:
            continue
        i = v.find(a)
        if i >= 0:
            cov.update(range(i, i + len(a)))
            continue
        # rotations (IBAN style) and rotation with transliteration
        done = False
        for r in range(1, len(v)):
            if v[r:] + v[:r] == a:
                cov.update(range(len(v)))
                done = True
                break
        if done:
            continue
        # the argument is v with some characters removed/replaced at the ends (prefix such as a country code)
        for cut in range(1, min(6, len(v))):
            if a.endswith(v[cut:]) or a.startswith(v[:-cut]):
                if a.endswith(v[cut:]):
                    cov.update(range(cut, len(v)))
                else:
                    cov.update(range(0, len(v) - cut))
                done = True
                break
        if not done:
            unmapped += 1
    return cov, unmapped


def neighbourhood(name, mod, v, positions, transpose, family, viols, cells, tier, rng):
    evals = 0
    optsets = [o for o in C.validate_options(mod) if name in LISTED]
    n = len(v)
    for p in sorted(positions):
        c = v[p]
        if c in '0123456789':
            pool = '0123456789'
        elif c.isalpha() and c.isascii():
            pool = 'ABCDEFGHIJKLMNOPQRSTUVWXYZ' if c.isupper() else 'abcdefghijklmnopqrstuvwxyz'
        else:
            continue
        for x in pool:
            if x == c:
                continue
            t = v[:p] + x + v[p + 1:]
            evals += 1
            cells.add((name, p, c, x))
            try:
                ok = mod.is_valid(t) is True
            except Exception:  # noqa: B902
                ok = False
            if not ok:
                for opts in optsets:
                    evals += 1
                    if C.outcome(mod.validate, t, **opts)[0] == 'ok' and C.outcome(mod.validate, v, **opts)[0] == 'ok':
                        ok = True
                        x = '%s [validate(**%r)]' % (x, opts)
                        break
            if ok:
                if name in DOCUMENTED_ESCAPES and escapes(name, v, t):
                    continue
                add(viols, 'C17|%s|single-substitution-accepted' % name,
                    '%r is valid and so is %r (position %d: %r -> %r; protected by %s)' % (v, t, p, c, x, family),
                    {'module': name, 'number': v, 'pos': p, 'repl': x, 'kind': 'subst'})
    # a look-alike character whose Unicode decimal value differs from the digit it replaces (the clean-up table
    # is the library's; the value is Unicode's)
    for p in sorted(positions):
        c = v[p]
        if c not in '0123456789':
            continue
        for x in LOOKALIKE_DIGITS.get('all', []):
            dv = LOOKALIKE_DIGITS['value'][x]
            if dv == int(c) or (tier == 'quick' and rng.random() > 0.15):
                continue
            t = v[:p] + x + v[p + 1:]
            evals += 1
            try:
                ok = mod.is_valid(t) is True
            except Exception:  # noqa: B902
                ok = False
            if ok and name in DOCUMENTED_ESCAPES and escapes(name, v, v[:p] + str(dv) + v[p + 1:]):
                continue
            if ok:
                add(viols, 'C17|%s|lookalike-of-another-digit-accepted' % name,
                    '%r is valid and so is %r (position %d: %r -> U+%04X, a look-alike of %d)' % (v, t, p, c, ord(x), dv),
                    {'module': name, 'number': v, 'pos': p, 'repl': x, 'kind': 'subst'})
    if transpose:
        for p in range(n - 1):
            a, b = v[p], v[p + 1]
            if a == b or not (a in '0123456789' and b in '0123456789'):
                continue
            if p not in positions or p + 1 not in positions:
                continue
            t = v[:p] + b + a + v[p + 2:]
            evals += 1
            cells.add((name, p, a + b, 'swap'))
            try:
                ok = mod.is_valid(t) is True
            except Exception:  # noqa: B902
                ok = False
            if ok:
                add(viols, 'C17|%s|adjacent-transposition-accepted' % name,
                    '%r is valid and so is %r (positions %d,%d swapped; protected by %s)' % (v, t, p, p + 1, family),
                    {'module': name, 'number': v, 'pos': p, 'kind': 'swap'})
    return evals


def work(shard, tier):
    mods = C.number_modules()
    load_lookalikes()
    probe = C.Probe()
    probe.start()
    seen = []
    for aname, fam in ALGO_FUNCS.items():
        am = C.get_module(aname)
        probe.watch(am.checksum, (aname, fam))

    def on_start(tag, frame):
        args = C.frame_args(frame)
        seen.append((tag, args.get('number')))
    probe.on_start = on_start
    viols = {}
    cells = set()
    evals = 0
    counters = {'numbers': 0, 'numbers_unmapped_span': 0, 'delegating_numbers': 0}
    delegators = {}
    samples = []
    for name in shard['modules']:
        mod = mods[name]
        rng = C.rng_for('C17', name)
        listed = name in LISTED
        base = C.corpus(name, limit=8 if tier == 'quick' else 400, rng=rng)
        nums = []
        special = C.synth_constant_prefixes(name, rng, cap=40 if tier == 'quick' else 400)
        # numbers next to the entries of a documented whitelist of issued numbers with a wrong check digit
        try:
            wl = sorted(str(x) for x in (getattr(mod, 'whitelist', ()) or ()))
        except Exception:  # noqa: B902
            wl = []
        if wl or name == 'do.cedula':
            snap = _cedula_snapshot() if name == 'do.cedula' else set(wl)
            known = sorted(snap)
            # entries shorter than the usual length, zero-filled (a whitelist test on the numeric value would take them)
            full = max(len(x) for x in known) if known else 0
            picks = [x.zfill(full) for x in known if len(x) < full]
            extra_wl = [x for x in wl if x not in snap and x.zfill(full) not in snap and x.lstrip('0') not in {k.lstrip('0') for k in known}]
            picks += extra_wl[:40] + rng.sample(known, min(len(known), 20 if tier == 'quick' else 300))
            for wnum in picks[:80 if tier == 'quick' else 1000]:
                for p in range(len(wnum)):
                    for d in '0123456789':
                        if d != wnum[p]:
                            cand = wnum[:p] + d + wnum[p + 1:]
                            if cand not in snap and C.outcome(mod.is_valid, cand) == ('ok', True):
                                special.append(cand)
        for v in base + C.synth_valid(name, 6 if tier == 'quick' else 400, rng, base=base) + special:
            o = C.outcome(mod.validate, v)
            if o[0] == 'ok' and isinstance(o[1], str) and o[1] and o[1] not in nums:
                nums.append(o[1])
        for v in nums:
            del seen[:]
            ok = C.outcome(mod.is_valid, v)
            evals += 1
            if ok != ('ok', True):
                continue
            args = [a for _t, a in seen]
            fams = sorted({t[0] for t, _a in seen})
            if name == 'imei' and len(v) != 15:
                continue
            embedded = False
            if not listed and not args:
                # a longer presentation of a number whose shorter form is protected (BN15 = BN9 + program account): the
                # protected part stays protected
                for k in sorted({len(x) for x in nums if len(x) < len(v)}, reverse=True):
                    # only if the numbers of this length as a rule begin with a valid shorter number (not by accident)
                    same = [x for x in nums if len(x) == len(v)]
                    hits = sum(1 for x in same if C.outcome(mod.is_valid, x[:k]) == ('ok', True))
                    lettered_tail = v[k:k + 1].isalpha() and v[:k].isdigit()      # 123456789 + RC0001: not a longer number
                    if hits < len(same) * 0.6 or (len(same) < 3 and not lettered_tail):
                        continue   # (by accident about one number in ten begins with a valid shorter one)
                    del seen[:]
                    if C.outcome(mod.is_valid, v[:k]) == ('ok', True) and seen:
                        args = [a for _t, a in seen]
                        fams = sorted({t[0] for t, _a in seen})
                        embedded = True
                        break
                if not embedded:
                    continue
            if listed:
                positions = set(range(len(v)))
                family = ','.join(fams) or 'own weighted sum'
            else:
                positions, unmapped = covered_positions(v[:k] if embedded else v, args)
                family = ','.join(fams) + (' (through its %d-character form)' % k if embedded else '')
                if embedded:
                    counters['embedded_protected_numbers'] = counters.get('embedded_protected_numbers', 0) + 1
                counters['delegating_numbers'] += 1
                if unmapped and not positions:
                    counters['numbers_unmapped_span'] += 1
                    continue
                delegators.setdefault(name, set()).update(fams)
            transpose = False
            if name in TRANSPOSITION_LISTED and (TRANSPOSITION_LISTED[name] is None or len(v) == TRANSPOSITION_LISTED[name]):
                transpose = True
            if any(f in ('verhoeff', 'damm') for f in fams):
                transpose = True
            counters['numbers'] += 1
            evals += neighbourhood(name, mod, v, positions, transpose, family, viols, cells, tier, rng)
            if listed:
                # accepted spellings that carry extra digits in front (century, zero padding): those digits are part
                # of a valid number as written and a typing error in them must not go unnoticed
                for pre in ('16', '19', '20', '00', '0', '1'):
                    x = pre + v
                    ox = C.outcome(mod.validate, x)
                    if ox[0] == 'ok' and ox[1] == v:
                        for p in range(len(pre)):
                            for d in '0123456789':
                                if d != x[p]:
                                    t = x[:p] + d + x[p + 1:]
                                    evals += 1
                                    ot = C.outcome(mod.validate, t)
                                    if ot[0] == 'ok' and ot[1] == v:
                                        add(viols, 'C17|%s|unchecked-leading-digit' % name,
                                            '%r and %r are both accepted as %r: the digit at position %d is not covered by any check' % (x, t, v, p),
                                            {'module': name, 'number': x, 'pos': p, 'repl': d, 'kind': 'subst'})
            if len(samples) < 1 and not listed:
                samples.append({'module': name, 'number': v, 'protected_by': family, 'covered_positions': sorted(positions)})
    probe.stop()
    return {'evaluations': evals, 'nontrivial': len(cells), 'violations': list(viols.values()), 'samples': samples,
            'counters': counters,
            'sets': {'delegating_modules': ['%s<-%s' % (k, '+'.join(sorted(v))) for k, v in delegators.items()],
                     'listed_modules_reached': [n for n in shard['modules'] if n in LISTED]}}


def finish(agg, tier):
    miss = sorted(set(LISTED) - set(agg['sets'].get('listed_modules_reached', ())))
    out = {}
    if miss:
        out['inconclusive'] = ['listed modules not reached: %s' % miss]
    return out


def replay(w):
    mod = C.number_modules()[w['module']]
    v = w['number']
    viols = {}
    if w['kind'] == 'subst':
        t = v[:w['pos']] + w['repl'] + v[w['pos'] + 1:]
    else:
        p = w['pos']
        t = v[:p] + v[p + 1] + v[p] + v[p + 2:]
    if mod.is_valid(v) is True and mod.is_valid(t) is True:
        add(viols, 'C17|%s|%s' % (w['module'], 'single-substitution-accepted' if w['kind'] == 'subst' else 'adjacent-transposition-accepted'),
            '%r and %r both valid' % (v, t), w)
    return list(viols.values())
