"""pytest plugin: run the repository's own doctest suite with boundary contracts switched on.

Loaded with `-p vm.doctest_plugin` (PYTHONPATH=/verif).  Every number module's validate()/is_valid() is replaced
by a recording wrapper before the tests run; the wrapper calls the real function, evaluates the contracts of
C01/C02/C15 on what it observed and appends any breach to a JSON file (VERIF_DOCTEST_OUT).  Nothing is raised into
the test, so the suite's own verdicts are unchanged.
"""
import functools
import json
import os
import sys

_records = {'calls': 0, 'accepted': 0, 'modules': set(), 'violations': {}}
_busy = [False]


def _add(sig, what, witness):
    v = _records['violations'].setdefault(sig, {'sig': sig, 'what': what, 'count': 0, 'witness': witness})
    v['count'] += 1


def _wrap(name, mod):
    from stdnum.exceptions import ValidationError
    real_validate = mod.validate
    real_is_valid = getattr(mod, 'is_valid', None)
    generic = name in ('luhn', 'verhoeff', 'damm') or name.startswith('iso7064.')
    national = {'de.handelsregisternummer': set('äöüÄÖÜß'), 'mx.rfc': set('Ññ'), 'es.referenciacatastral': set('Ññ')}.get(name, set())

    @functools.wraps(real_validate)
    def validate(number, *args, **kwargs):
        if _busy[0]:
            return real_validate(number, *args, **kwargs)
        _records['calls'] += 1
        _records['modules'].add(name)
        try:
            v = real_validate(number, *args, **kwargs)
        except ValidationError:
            raise
        except Exception as e:  # noqa: B902
            if isinstance(number, str):
                _add('C01|%s|%s|doctest-suite' % (name, type(e).__name__), 'validate(%r) left with %r during the repository test suite' % (number, e),
                     {'module': name, 'arg': number, 'options': repr(kwargs), 'cls': 'doctest'})
            raise
        _records['accepted'] += 1
        _busy[0] = True
        try:
            if not isinstance(v, str):
                if isinstance(number, str):
                    _add('C01|%s|returns-nonstr|doctest' % name, 'validate(%r) returned %r' % (number, v), {'module': name, 'arg': number, 'cls': 'doctest'})
            else:
                trig = 'plain-input' if isinstance(number, str) and all('!' <= ch <= '~' for ch in number.strip(' ')) else 'blank-control-or-non-ascii-inside'
                if v != v.strip():
                    _add('C02|%s|surrounding-whitespace|%s' % (name, trig), 'validate(%r) returned %r' % (number, v), {'module': name, 'arg': number, 'options': {}, 'cls': 'doctest'})
                try:
                    v2 = real_validate(v, *args, **kwargs)
                    if v2 != v:
                        _add('C02|%s|refeed-changed|%s' % (name, trig), 'validate(%r) returned %r, validating that returns %r' % (number, v, v2),
                             {'module': name, 'arg': number, 'options': {}, 'cls': 'doctest'})
                except ValidationError as e:
                    _add('C02|%s|refeed-rejected|%s' % (name, trig), 'validate(%r) returned %r, validating that raises %s' % (number, v, type(e).__name__),
                         {'module': name, 'arg': number, 'options': {}, 'cls': 'doctest'})
                except Exception:  # noqa: B902
                    pass
                if not generic and not v.isascii() and any(ord(c) > 127 and c not in national for c in v):
                    _add('C15|%s|nonascii-result|doctest' % name, 'validate(%r) returned %r' % (number, v), {'module': name, 'arg': number, 'cls': 'doctest'})
                if real_is_valid is not None and isinstance(number, str):
                    try:
                        ok = real_is_valid(number, *args, **kwargs) if kwargs or args else real_is_valid(number)
                        if ok is not True and not (kwargs or args):
                            _add('C01|%s|is_valid-disagrees-with-validate|rejects|doctest' % name, 'validate(%r) returned but is_valid is %r' % (number, ok),
                                 {'module': name, 'arg': number, 'options': {}, 'cls': 'doctest'})
                    except TypeError:
                        pass
                    except Exception as e:  # noqa: B902
                        _add('C01|%s|%s|doctest-is_valid' % (name, type(e).__name__), 'is_valid(%r) raised %r' % (number, e), {'module': name, 'arg': number, 'cls': 'doctest'})
        finally:
            _busy[0] = False
        return v
    mod.validate = validate


def pytest_sessionstart(session):
    root = os.environ.get('VERIF_REPO', '/repo')
    if sys.path[0] != root:
        sys.path.insert(0, root)
    import warnings
    warnings.filterwarnings('ignore', category=DeprecationWarning)
    from stdnum.util import get_number_modules
    for mod in list(get_number_modules()):
        _wrap(mod.__name__[len('stdnum.'):], mod)


def pytest_sessionfinish(session, exitstatus):
    out = os.environ.get('VERIF_DOCTEST_OUT')
    if out:
        rec = dict(_records)
        rec['modules'] = sorted(rec['modules'])
        rec['violations'] = list(rec['violations'].values())
        rec['exitstatus'] = int(exitstatus)
        with open(out, 'w') as f:
            json.dump(rec, f)
