"""Regenerate MANIFEST.json from the monitors that exist (run: python -m vm.mkmanifest)."""

import json
import os

VERIF = os.path.dirname(os.path.dirname(os.path.abspath(__file__)))

CHECKS = {
    'C01': dict(
        technique='runtime contract monitor at the validate()/is_valid() boundary over hostile generated inputs '
                  '(sys.monitoring probe on clean(), clock interposition, registry probes, payload sweep) + the repository doctest suite run under the same contract (pytest plugin)',
        text='Every validate()/is_valid() call of a class-by-position workload (hostile characters, foreign digits, '
             'junk objects, size classes, options, clock sweep) over all discovered modules is observed and checked '
             'against the error contract; held means no unlisted stray exception / wrong return kind / disagreement '
             'was observed on the executions counted in the evidence.',
        note='Inputs are sampled by class x position, not enumerated; corpus validity judged by the library; '
             'CPython 3.12 semantics (int digit limit).', ref='3/C01'),
}

CHECKS.update({
    'C02': dict(
        technique='runtime contract monitor: every accepted validate() result is re-fed to validate() (fixed point, no surrounding whitespace) over generated presentations, generated GS1 element strings, the repository doctest suite under contracts and a 4-thread replica',
        text='Presentation workload (every pool character at sampled/all positions, prefixes, double inserts, table-driven constant variants, hostile strings, options); every accepted result is re-validated and compared. Held = no unlisted non-fixed-point on the accepted calls counted.',
        note='Accepted presentations are sampled; corpus + synthesised numbers judged valid by the library.', ref='3/C02'),
    'C03': dict(
        technique='relational runtime monitor: inputs grouped by the value the real compact() returns must share one validate() outcome',
        text='Seeds (valid, near-miss, garbage) are decorated; pairs the real compact() maps together are compared on validate() outcome. Held = every observed compact-equivalence group had one outcome.',
        note='Only pairs that the workload generates are compared; exclusions are the ones the statement names.', ref='3/C03'),
    'C04': dict(
        technique='relational runtime monitor on format(): validate(format(x)) vs validate(x) and format(x) vs format(validate(x))',
        text='All modules with format() x accepted presentations x format options; three-clause oracle with only the four documented normalisations. Held = no unlisted clause failure on the cases counted.',
        note='Presentations sampled; separators restricted to those compact() is observed to strip.', ref='3/C04'),
    'C05': dict(
        technique='inner-call probe (sys.monitoring) on generators + layout inference + perturbation of check positions + converse completion',
        text='Generators are observed inside validate(); the layout rule the documented numbers agree on is required of all corpus+synthesised valid numbers; every alternative check character is tried; mutated payloads are completed with generated check characters. Held = no unlisted disagreement on mapped generators (unmapped ones are listed in the evidence).',
        note='Modules whose generator layout cannot be inferred from >= 3 documented numbers of one length are reported unmapped, not held.', ref='3/C05'),
    'C06': dict(
        technique='state-observation monitor (transition tables of each fold via checksum()) + neighbourhood oracle at the API for every length 1..64 and long strings',
        text='For 33 (algorithm, alphabet) configurations: observed transition tables are checked for functional dependence under many prefix lengths, injectivity and transposition anti-symmetry; payloads of every length are completed, all other check characters, all single substitutions and adjacent transpositions tried. Held = guarantees observed on all of these.',
        note='"Any length" rests on observed functional dependence of the abstract state, which is itself monitored; mod 97-10 is bounded by CPython int() at 4300 digits.', ref='3/C06'),
    'C14': dict(
        technique='exhaustive sweep of clean() over all code points against unicodedata + string postcondition monitor + look-alike relational monitor per module (probe on util.clean)',
        text='All 1,114,112 code points (exhaustive); generated strings x deletechars for order/count/deletion/idempotence; every look-alike of the table substituted/inserted in valid numbers of every module observed to call clean(). Held = all agree.',
        note='Unicode database of the interpreter is the reference; module-level part is sampled over numbers and positions.', ref='3/C14'),
    'C15': dict(
        technique='runtime contract monitor: validate() results must be ASCII under foreign-digit / foreign-letter substitution at every position (one number per length/first-character class swept exhaustively), plus the repository doctest suite under contracts',
        text='First two documented numbers of every identifier module are swept exhaustively (every digit position x every same-valued non-table foreign digit, every letter position x letter classes), further numbers seed-sampled. Held = no unlisted non-ASCII result.',
        note='20+ modules of the unchanged tree pass non-ASCII characters through; these are recorded as known findings by (module, character kind).', ref='3/C15'),
})

CHECKS.update({
    'C10': dict(
        technique='reference-model monitor: real numdb reader + lookup vs independent strict parser and a 20-line executable model; registry-structure invariant after every lookup; child interpreters under POSIX / non-UTF-8 locale settings',
        text='All shipped registries (boundary queries per range) and thousands of generated well-formed registries (overlaps of equal and different lengths, multi-range lines, nesting, wide levels of touching / repeated entries, tab and DOS-line-end layouts, repeated and reordered queries on one loaded database) are compared with the model; every shipped registry is loaded under four locale settings and digested; the loaded tree is digested before and after lookups. Held = agreement on all queries counted.',
        note='The model is my transcription of the documented rule; queries touching lines the strict grammar rejects are left to C11.', ref='3/C10'),
    'C11': dict(
        technique='exhaustive sweep over every registry line: strict grammar, comparison with what numdb.read() built, reachability lookups, consumer-level witnesses',
        text='Every non-comment line of every .dat file (exhaustive, ~46.8k): grammar, reader agreement, lookup of low/high/mid along the parent path, and a witness in the consuming module (IBAN structure, GS1 AI codec, ISBN split, IMSI/OUI/bank/location/office lookups). Held = no unlisted entry fails.',
        note='43 entries of the unchanged tree fail (quotes inside imsi.dat values, shadowed IMSI MNCs, duplicate OUI/CFI/EIN entries, 5 GS1 formats the codec cannot parse); each is a known finding keyed by the entry itself.', ref='3/C11'),
    'C13': dict(
        technique='history recorder + pristine-process oracle (stdlib-only zygote forking one child per call) + cache invariants at quiescent points + cold-start thread trials with sys.monitoring LINE yield injection and audit-hook evidence of overlapping loads + clock-shift trials (library imported on D1, called on D2, clock replaced before import)',
        text='Seeded histories of public calls over all modules with in-place mutation of every returned container are compared call by call with a fresh interpreter (three hash seeds for the reference); registries and country-module caches are compared with fresh loads; 2..16 threads are released from a barrier into first uses (mixed and focused on one family of shared state); a process that imported the library today answers date-dependent calls 500 days and 31 years later like one started then. Held = no difference observed; the evidence counts histories, oracle calls, trials and overlapping cold loads.',
        note='Schedules are those produced under the GIL with yield injection; counted, not enumerated. Modules a trial calls directly (and, outside the package-walk family, the country vat/iban modules) are imported up front; what the library loads lazily stays cold.', ref='3/C13'),
    'C16': dict(
        technique='reference-model monitor in the decoded domain: element strings generated from an independent reading of gs1_ai.dat, round trips through the real info()/encode()/validate(), failing cases attributed to the culprit AI format',
        text='Every registered AI (own slice per shard) and random combinations of 1..5 AIs x separators x parentheses x canonical/shuffled order; three round-trip clauses. Held = no unlisted (format, padding, separator) class fails.',
        note='Five root causes of the unchanged tree (decimal truncation, zero padding of decimals, blank padding of optional-part dates, midnight 7011, two unparseable formats) are known findings by format class.', ref='3/C16'),
    'C17': dict(
        technique='delegation probe (sys.monitoring on the generic algorithms\' checksum()) + exhaustive single-edit neighbourhood oracle through is_valid()/validate(options)',
        text='Listed modules at all positions, observed delegators on the span they hand to Luhn/Verhoeff/Damm/ISO 7064: every same-class substitution and (where claimed) adjacent digit swap of corpus + synthesised valid numbers must be rejected. Held = none accepted.',
        note='Four modules with two documented schemes (fr.siret, nl.btw, id.npwp, do.cedula whitelist) are exempted only for neighbours that fall under the other scheme as evaluated by the harness itself (La Poste digit sum; a snapshot of the whitelist).', ref='3/C17'),
    'C18': dict(
        technique='WSGI conformance monitor (wsgiref.validate) + response oracle (independent is_valid sweep, template-as-frame segmentation, markup canary) + cold-start concurrent-request trials',
        text='Valid numbers of every module, canary-bearing valid numbers, hostile queries (also unencoded bytes), inputs on which a direct is_valid() call leaves with a stray exception (pre-screen of date-forced, foreign-character and extreme-field candidates), both modes, long request sequences with changing document roots, and threads sending first requests at once. Held = 200, JSON parses, result set equals the sweep, no raw canary.',
        note='The oversized-number server error inherited from the C01 int() finding is a known finding.', ref='3/C18'),
})

CHECKS.update({
    'C07': dict(
        technique='reference-model monitor: validate() of 19 identifier modules vs independent transcriptions of the standards (vm/refs.py, no library code) on compact fixed points and display forms; exhaustive payload sweeps in the thorough tier',
        text='Corpus + synthesised numbers, every single-edit neighbour, random strings of every length, every country prefix of the shared tables, hostile ASCII, well-formed accounts for every IBAN structure; (accepted?, canonical form) must agree. Held = no unlisted disagreement.',
        note='The references are as good as my reading of the standards; nine disagreements of the unchanged tree (LEI length, check letters, 00/01/99 check digits, mixed-case Bech32, two missing FIGI prefixes) were read against the texts and are known findings.', ref='3/C07'),
    'C08': dict(
        technique='relational monitor over a conversion table: real target validate(), embedding predicate and inverse conversion on canonical forms',
        text='About 60 conversion rows x corpus + synthesised (leading zeros, rare alphabet characters, digits-only shapes) valid sources x presentations. Held = every conversion returns something the target accepts, embedding the source and undone by its inverse; documented refusals are the only accepted ValidationErrors.',
        note='The table is written from the statement; conversions outside it are not covered.', ref='3/C08'),
    'C09': dict(
        technique='relational monitor: wrapper outcome vs an independent projection onto its constituents (own member-state table, own prefix handling), plus alias resolution vs the package __init__ files',
        text='50 relations (eu.vat per prefix, vatin, us.tin/be.ssn/th.tin unions, es.nif, iban vs generic+national, seven simple wrappers, aliases) x constituent numbers in bare/prefixed/lower/spaced form, single-edit neighbours, foreign prefixes, generic-valid nationally-invalid IBANs. Held = equivalence on all of them.',
        note='Projections are my reading of the statement; one disagreement of the unchanged tree (vatin rejects EU/IM one-stop-shop numbers) is a known finding.', ref='3/C09'),
    'C12': dict(
        technique='runtime contract monitor on every discovered getter + per-module field map as independent model of "agrees with the digits"',
        text='79 (module, getter) pairs x corpus, synthesised, registry-derived and date-forced valid numbers (leap days of leap and non-leap years, unknown parts, century markers, 12-digit and +/- spellings) x clock sweep. Held = total (value or ValidationError), dates agree with digits and with year/month getters, gender in {M,F}, split() concatenates.',
        note='Field maps are written from the module documentation; three getters of the unchanged tree fail and are known findings.', ref='3/C12'),
})

NOT_YET = 'monitor designed in DESIGN.md but not built yet in this round'


def main():
    props = [json.loads(l) for l in open(os.path.join(VERIF, 'properties.jsonl'))]
    checks = []
    na = []
    for p in props:
        pid = p['id']
        if pid in CHECKS and os.path.exists(os.path.join(VERIF, 'vm', pid.lower() + '.py')):
            c = CHECKS[pid]
            checks.append({
                'property_id': pid,
                'quick_cmd': './check %s --tier quick' % pid,
                'thorough_cmd': './check %s --tier thorough' % pid,
                'evidence_file': '/verif/evidence/%s.json' % pid,
                'replay_cmd_template': './check %s --replay {path}' % pid,
                'engine': 'vm',
                'level_claimed': {'category': c.get('category', 'exploration'), 'text': c['text'],
                                  'design_ref': 'DESIGN.md section ' + c['ref']},
                'level_note': c['note'],
                'technique': c['technique'],
            })
        else:
            na.append({'property_id': pid, 'reason': NOT_YET})
    man = {
        'version': 1,
        'setup_cmd': 'true',
        'hooks': {
            'guard': 'PYTHON_STDNUM_VERIF',
            'enable': 'no source hooks: all instrumentation is source-free (sys.monitoring probes, attribute '
                      'interposition, audit hooks) and is switched on by the checks themselves',
            'baseline_off_cmd': 'cd /repo && /venv/bin/python -m pytest -ra -q -p no:cacheprovider --timeout=900 '
                                '--continue-on-collection-errors',
            'source_commits': [],
            'add_only': True,
        },
        'engines': [{'name': 'vm', 'path': '/verif/vm', 'serves_properties': [c['property_id'] for c in checks],
                     'kind_free_text': 'runtime monitors (boundary contracts, relational and reference-model '
                                       'oracles, sys.monitoring probes) driven by generated hostile workloads'}],
        'checks': checks,
        'not_applicable': na,
        'notes': 'Exit codes: 0 held on what was observed, 1 violation (VIOLATION line + replay file), 2 inconclusive '
                 '(deciding monitor not reached). Genuine defects left unrepaired are listed in known_findings.json; '
                 'repaired ones are fix: commits in /repo and listed there with status fixed.',
    }
    with open(os.path.join(VERIF, 'MANIFEST.json'), 'w') as f:
        json.dump(man, f, indent=1)
    print('claimed:', [c['property_id'] for c in checks], 'not_applicable:', len(na))


if __name__ == '__main__':
    main()
