"""Regenerate MANIFEST.json from the monitors that exist (run: python -m vm.mkmanifest)."""

import json
import os

VERIF = os.path.dirname(os.path.dirname(os.path.abspath(__file__)))

CHECKS = {
    'C01': dict(
        technique='runtime contract monitor at the validate()/is_valid() boundary over hostile generated inputs '
                  '(sys.monitoring probe on clean(), clock interposition)',
        text='Every validate()/is_valid() call of a class-by-position workload (hostile characters, foreign digits, '
             'junk objects, size classes, options, clock sweep) over all discovered modules is observed and checked '
             'against the error contract; held means no unlisted stray exception / wrong return kind / disagreement '
             'was observed on the executions counted in the evidence.',
        note='Inputs are sampled by class x position, not enumerated; corpus validity judged by the library; '
             'CPython 3.12 semantics (int digit limit).', ref='3/C01'),
}

NOT_YET = 'monitor designed in DESIGN.md but not built yet in this round'


def main():
    props = [json.loads(l) for l in open(os.path.join(VERIF, 'properties.jsonl'))]
    checks = []
    na = []
    for p in props:
        pid = p['id']
        if pid in CHECKS and os.path.exists(os.path.join(VERIF, 'vm', pid.lower() + '.py')):
            c = CHECKS[pid]
            checks.append({
                'property_id': pid,
                'quick_cmd': './check %s --tier quick' % pid,
                'thorough_cmd': './check %s --tier thorough' % pid,
                'evidence_file': '/verif/evidence/%s.json' % pid,
                'replay_cmd_template': './check %s --replay {path}' % pid,
                'engine': 'vm',
                'level_claimed': {'category': c.get('category', 'exploration'), 'text': c['text'],
                                  'design_ref': 'DESIGN.md section ' + c['ref']},
                'level_note': c['note'],
                'technique': c['technique'],
            })
        else:
            na.append({'property_id': pid, 'reason': NOT_YET})
    man = {
        'version': 1,
        'setup_cmd': 'true',
        'hooks': {
            'guard': 'PYTHON_STDNUM_VERIF',
            'enable': 'no source hooks: all instrumentation is source-free (sys.monitoring probes, attribute '
                      'interposition, audit hooks) and is switched on by the checks themselves',
            'baseline_off_cmd': 'cd /repo && /venv/bin/python -m pytest -ra -q -p no:cacheprovider --timeout=900 '
                                '--continue-on-collection-errors',
            'source_commits': [],
            'add_only': True,
        },
        'engines': [{'name': 'vm', 'path': '/verif/vm', 'serves_properties': [c['property_id'] for c in checks],
                     'kind_free_text': 'runtime monitors (boundary contracts, relational and reference-model '
                                       'oracles, sys.monitoring probes) driven by generated hostile workloads'}],
        'checks': checks,
        'not_applicable': na,
        'notes': 'Exit codes: 0 held on what was observed, 1 violation (VIOLATION line + replay file), 2 inconclusive '
                 '(deciding monitor not reached). Genuine defects left unrepaired are listed in known_findings.json; '
                 'repaired ones are fix: commits in /repo and listed there with status fixed.',
    }
    with open(os.path.join(VERIF, 'MANIFEST.json'), 'w') as f:
        json.dump(man, f, indent=1)
    print('claimed:', [c['property_id'] for c in checks], 'not_applicable:', len(na))


if __name__ == '__main__':
    main()
