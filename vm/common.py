"""Shared machinery of the runtime monitors (see DESIGN.md section 2).

Everything here is stdlib only.  The library under observation is imported
from VERIF_REPO (default /repo), never from an installed copy.
"""

import datetime as _real_datetime
import importlib
import inspect
import json
import os
import random
import re
import sys
import time
import traceback
import types

VERIF = os.path.dirname(os.path.dirname(os.path.abspath(__file__)))
REPO = os.path.abspath(os.environ.get('VERIF_REPO', '/repo'))
SEED = int(os.environ.get('VERIF_SEED', '0') or 0)
OUT_ROOT = os.path.abspath(os.environ.get('VERIF_OUT', os.path.join(VERIF, 'out')))


class Inconclusive(Exception):
    """The deciding monitor could not be reached."""


_setup_done = [None]


def setup_repo():
    """Put the repository first on sys.path and make sure stdnum comes from it."""
    if _setup_done[0] is not None:
        return _setup_done[0]
    _setup_done[0] = _setup_repo()
    return _setup_done[0]


def _setup_repo():
    sys.dont_write_bytecode = True
    if sys.path[0] != REPO:
        sys.path.insert(0, REPO)
    for name in [n for n in list(sys.modules) if n == 'stdnum' or n.startswith('stdnum.')]:
        mod = sys.modules[name]
        f = getattr(mod, '__file__', '') or ''
        if not os.path.abspath(f).startswith(REPO + os.sep):
            del sys.modules[name]
    import warnings
    warnings.filterwarnings('ignore', category=DeprecationWarning)
    import stdnum
    f = os.path.abspath(stdnum.__file__)
    if not f.startswith(REPO + os.sep):
        raise Inconclusive('stdnum imported from %s, not from %s' % (f, REPO))
    return stdnum


_modules_cache = None


def number_modules():
    """All number modules of the current tree, as {name: module}, discovered
    with the library's own get_number_modules()."""
    global _modules_cache
    if _modules_cache is None:
        setup_repo()
        from stdnum.util import get_number_modules
        _modules_cache = {}
        for m in get_number_modules():
            _modules_cache[m.__name__[len('stdnum.'):]] = m
    return _modules_cache


def get_module(name):
    setup_repo()
    return importlib.import_module('stdnum.' + name)


GENERIC_ALGOS = ('luhn', 'verhoeff', 'damm', 'iso7064.mod_11_2', 'iso7064.mod_37_2',
                 'iso7064.mod_11_10', 'iso7064.mod_37_36', 'iso7064.mod_97_10')


# --------------------------------------------------------------------------
# outcomes

def site_of(exc):
    """Innermost stdnum frame of the traceback as 'module:function'."""
    tb = exc.__traceback__
    site = None
    root = REPO + os.sep
    while tb is not None:
        code = tb.tb_frame.f_code
        fn = code.co_filename
        if fn.startswith(root):
            rel = fn[len(root):]
            if rel.endswith('.py'):
                rel = rel[:-3]
            site = '%s:%s' % (rel.replace(os.sep, '.'), code.co_name)
        tb = tb.tb_next
    return site


def outcome(fn, *args, **kwargs):
    """Call fn and classify what happened.

    ('ok', value) | ('ve', ClassName) | ('exc', ClassName, site, message)
    """
    from stdnum.exceptions import ValidationError
    try:
        return ('ok', fn(*args, **kwargs))
    except ValidationError as e:
        return ('ve', type(e).__name__)
    except RecursionError as e:  # keep the traceback small
        return ('exc', 'RecursionError', site_of(e), '')
    except Exception as e:  # noqa: B902
        return ('exc', type(e).__name__, site_of(e), str(e)[:120])


def accepted(o):
    return o[0] == 'ok'


def short(o):
    """Outcome reduced to what properties compare: value or 'rejected'."""
    if o[0] == 'ok':
        return ('ok', o[1])
    return ('rej',)


# --------------------------------------------------------------------------
# corpus of "observed valid" numbers, harvested from the tree's own doctests

_token_res = [
    re.compile(r"'((?:[^'\\\n]|\\.)*)'"),
    re.compile(r'"((?:[^"\\\n]|\\.)*)"'),
]


def _unescape(s):
    if '\\' not in s:
        return s
    try:
        return bytes(s, 'utf-8').decode('unicode_escape').encode('latin-1', 'ignore').decode('utf-8', 'ignore') \
            if all(ord(c) < 128 for c in s) else s
    except Exception:  # noqa: B902
        return s


def tokens_of_text(text):
    toks = []
    seen = set()
    for rx in _token_res:
        for m in rx.finditer(text):
            t = _unescape(m.group(1))
            if t and t not in seen and len(t) < 200:
                seen.add(t)
                toks.append(t)
    for line in text.splitlines():
        t = line.strip()
        if t.startswith('>>>'):
            continue
        if t.startswith('...'):
            t = t[3:].strip()
        if t and t not in seen and len(t) < 200:
            seen.add(t)
            toks.append(t)
    return toks


def _doc_sources(name):
    """Docstrings of the module and its functions plus its tests/*.doctest."""
    texts = []
    mod = get_module(name)
    try:
        texts.append(open(mod.__file__, encoding='utf-8').read())
    except Exception:  # noqa: B902
        pass
    base = 'test_' + name.replace('.', '_').replace('in__', 'in_').replace('is__', 'is_')
    for cand in (base + '.doctest',):
        p = os.path.join(REPO, 'tests', cand)
        if os.path.exists(p):
            texts.append(open(p, encoding='utf-8').read())
    return texts


# wrappers get the corpus of their constituents too
_EXTRA_SOURCES = {
    'eu.vat': None, 'vatin': None,   # filled lazily with every */vat module
}


def _all_test_tokens():
    toks = []
    seen = set()
    tdir = os.path.join(REPO, 'tests')
    for fn in sorted(os.listdir(tdir)):
        if fn.endswith('.doctest'):
            for t in tokens_of_text(open(os.path.join(tdir, fn), encoding='utf-8').read()):
                if t not in seen:
                    seen.add(t)
                    toks.append(t)
    return toks


_corpus_cache = {}


def corpus(name, limit=None, rng=None, extra_from=()):
    """Valid numbers of module `name` as the current tree itself judges them.

    The corpus is a source of inputs only, never an oracle."""
    key = (name, tuple(extra_from))
    if key not in _corpus_cache:
        mod = get_module(name)
        texts = _doc_sources(name)
        for other in extra_from:
            texts.extend(_doc_sources(other))
        found = []
        seen = set()
        for text in texts:
            for t in tokens_of_text(text):
                if t in seen:
                    continue
                seen.add(t)
                try:
                    ok = mod.is_valid(t)
                except Exception:  # noqa: B902
                    ok = False
                if ok is True:
                    found.append(t)
        if len(found) < 12:
            # fall back on every token of every doctest file
            for t in _all_test_tokens():
                if t in seen:
                    continue
                seen.add(t)
                try:
                    ok = mod.is_valid(t)
                except Exception:  # noqa: B902
                    ok = False
                if ok is True:
                    found.append(t)
                    if len(found) >= 40:
                        break
        _corpus_cache[key] = found
    nums = _corpus_cache[key]
    if limit is not None and len(nums) > limit:
        rng = rng or random.Random(0)
        # prefer distinct (length, first char class) cells, then random fill
        cells = {}
        for n in nums:
            cells.setdefault((len(n), n[:1].isdigit()), []).append(n)
        picked = []
        keys = sorted(cells)
        rng.shuffle(keys)
        for k in keys:
            picked.append(rng.choice(cells[k]))
            if len(picked) >= limit:
                break
        rest = [n for n in nums if n not in picked]
        rng.shuffle(rest)
        picked.extend(rest[:limit - len(picked)])
        return picked
    return list(nums)


# --------------------------------------------------------------------------
# options of validate / is_valid / format

def _named_option_values(modname, pname, default):
    """Documented values of the options that are not plain booleans."""
    if pname == 'office':  # at.tin: name of a tax office from the registry
        from stdnum import numdb
        offices = sorted({p.get('office') for _l, _lo, _hi, p, _c in numdb.get('at/fa').prefixes if p.get('office')})
        return [None, offices[0], offices[len(offices) // 2], offices[-1].upper(), 'No Such Office']
    if pname == 'region':  # de.stnr: name of a Bundesland
        mod = get_module(modname)
        regions = [v[0] for v in mod._number_formats_per_region.values()]
        return [None] + regions + [regions[0].upper(), 'Atlantis']
    if pname == 'company_form':
        return [None, 'GmbH', 'e.K.', 'AG', 'KG', 'eG', 'Nonsense']
    if pname == 'validate_manufacturer':
        return [None, True, False]
    if pname == 'table':
        return [None]
    if pname == 'alphabet':
        return [default]
    if pname == 'separator' and modname == 'gs1_128':
        return ['', '\x1d', '~', '|']
    if pname == 'format' and modname == 'meid':
        return [None, 'hex', 'dec']
    return None


def option_values(modname, func):
    """[{name: value}] for every keyword option of func (beyond the number)."""
    out = []
    try:
        sig = inspect.signature(func)
    except (TypeError, ValueError):
        return out
    for p in list(sig.parameters.values())[1:]:
        if p.default is inspect.Parameter.empty:
            continue
        vals = _named_option_values(modname, p.name, p.default)
        if vals is None:
            if isinstance(p.default, bool):
                vals = [True, False]
            elif p.default is None:
                vals = [None]
            elif isinstance(p.default, str):
                vals = [p.default, '', ' ', '-']
            else:
                vals = [p.default]
        for v in vals:
            out.append({p.name: v})
    return out


def option_combos(modname, func):
    """Single option settings plus every pair of settings of two different options."""
    singles = option_values(modname, func)
    out = list(singles)
    for i, a in enumerate(singles):
        for b in singles[i + 1:]:
            if set(a) != set(b):
                d = dict(a)
                d.update(b)
                if d not in out:
                    out.append(d)
    return out


def validate_options(mod):
    return option_values(mod.__name__[len('stdnum.'):], mod.validate)


# --------------------------------------------------------------------------
# clock injection (attribute interposition, DESIGN 2.2 c)

class _Clock:
    today = None   # a datetime.date or None for the real clock
    calls = 0


class FakeDate(_real_datetime.date):
    @classmethod
    def today(cls):
        _Clock.calls += 1
        if _Clock.today is None:
            return _real_datetime.date.today()
        t = _Clock.today
        return _real_datetime.date(t.year, t.month, t.day)


class FakeDateTime(_real_datetime.datetime):
    @classmethod
    def now(cls, tz=None):
        _Clock.calls += 1
        if _Clock.today is None:
            return _real_datetime.datetime.now(tz)
        t = _Clock.today
        return _real_datetime.datetime(t.year, t.month, t.day, 12, 0, 0)

    @classmethod
    def today(cls):
        return cls.now()

    @classmethod
    def utcnow(cls):
        return cls.now()


_fake_dt_module = types.ModuleType('datetime')
_fake_dt_module.__dict__.update(_real_datetime.__dict__)
_fake_dt_module.date = FakeDate
_fake_dt_module.datetime = FakeDateTime


def install_clock():
    """Replace the clock each stdnum module sees.  Returns the names of the
    modules whose globals were interposed."""
    patched = []
    for name, mod in list(sys.modules.items()):
        if not (name == 'stdnum' or name.startswith('stdnum.')) or mod is None:
            continue
        g = mod.__dict__
        changed = False
        if g.get('datetime') is _real_datetime:
            g['datetime'] = _fake_dt_module
            changed = True
        elif g.get('datetime') is _real_datetime.datetime:
            g['datetime'] = FakeDateTime
            changed = True
        if g.get('date') is _real_datetime.date:
            g['date'] = FakeDate
            changed = True
        if changed:
            patched.append(name)
    return patched


def set_clock(d):
    _Clock.today = d


def clock_calls():
    return _Clock.calls


CLOCK_SWEEP = [
    _real_datetime.date(y, m, d)
    for y in (1970, 1999, 2000, 2024, 2038, 2099, 2100)
    for (m, d) in ((1, 1), (2, 28), (12, 31))
] + [_real_datetime.date(2000, 2, 29), _real_datetime.date(2024, 2, 29)]


def clock_reading_modules():
    """Names of the stdnum modules whose source mentions today()/now()."""
    names = []
    for name, mod in number_modules().items():
        try:
            src = open(mod.__file__, encoding='utf-8').read()
        except Exception:  # noqa: B902
            continue
        if re.search(r'\.today\(\)|\.now\(\)', src):
            names.append(name)
    return names


# --------------------------------------------------------------------------
# hostile material

NEWLINE_FAMILY = ['\n', '\r', '\x0b', '\x0c', '\x1c', '\x1d', '\x1e', '\x1f', '\x85', ' ', ' ']
ASCII_SEPARATORS = list(" -./:,*'")
CONTROL = ['\x00', '\t', '\x7f', '\x1b']
SPACES = [' ', '　', ' ', '​', '﻿']
CASE_EXPANDING = ['ß', 'ŉ', 'ǰ', 'ı', 'İ', 'ſ', 'ﬁ', 'ﬀ', 'ẞ', 'ΐ']
LETTERS_FOREIGN = ['é', 'Å', 'Α', 'Β', 'А', 'С', 'х', 'Ａ', 'ａ',
                   'Ñ', 'Ü', 'K', 'Ⅰ', 'Ⓐ', '\U0001d400']
SURROGATES = ['\ud800', '\udfff']
COMBINING = ['́', '⃣']
SYMBOLS = ['%', '<', '>', '"', '&', '\\', '(', ')', '[', '+', '_', '~', '|', '{', '$', '^', '?', '#', '@', '!', '=', ';']


def foreign_digits():
    """{value: [code points]} for every character with a digit value that is
    not an ASCII digit."""
    import unicodedata
    out = {}
    for cp in range(0x80, 0x110000):
        c = chr(cp)
        cat = unicodedata.category(c)
        if cat in ('Nd', 'No', 'Nl'):
            v = unicodedata.digit(c, None)
            if v is None:
                v = unicodedata.decimal(c, None)
            if v is None:
                try:
                    nv = unicodedata.numeric(c)
                except ValueError:
                    continue
                if nv == int(nv) and 0 <= nv <= 9:
                    v = int(nv)
                else:
                    continue
            out.setdefault(v, []).append(c)
    return out


class _Raiser:
    def __init__(self, what):
        self.what = what

    def __iter__(self):
        if self.what == 'iter':
            raise RuntimeError('hostile __iter__')
        return iter('123')

    def __str__(self):
        if self.what == 'str':
            raise RuntimeError('hostile __str__')
        return '123'

    def __len__(self):
        if self.what == 'len':
            raise RuntimeError('hostile __len__')
        return 3

    def __bool__(self):
        if self.what == 'bool':
            raise RuntimeError('hostile __bool__')
        return True

    def __repr__(self):
        return 'Raiser(%r)' % self.what


def junk_objects():
    """name -> factory of a non-string argument."""
    return {
        'None': lambda: None,
        'int0': lambda: 0,
        'int': lambda: 123456789,
        'bigint': lambda: 10 ** 30,
        'negint': lambda: -5,
        'float': lambda: 1234.5,
        'nan': lambda: float('nan'),
        'True': lambda: True,
        'False': lambda: False,
        'bytes': lambda: b'123456789',
        'bytes_empty': lambda: b'',
        'bytearray': lambda: bytearray(b'12345'),
        'list_str': lambda: ['1', '2', '3', '4', '5', '6', '7', '8', '9'],
        'list_int': lambda: [1, 2, 3],
        'list_multi': lambda: ['12', '34', '56'],
        'tuple_str': lambda: ('1', '2', '3', '4', '5', '6', '7', '8'),
        'tuple_empty': lambda: (),
        'dict': lambda: {'1': 2},
        'set': lambda: {'1'},
        'frozenset': lambda: frozenset('12'),
        'range': lambda: range(10),
        'iterator': lambda: iter('123456789'),
        'generator': lambda: (c for c in '123456782'),
        'callable': lambda: len,
        'object': lambda: object(),
        'type': lambda: str,
        'complex': lambda: 1 + 2j,
        'raise_iter': lambda: _Raiser('iter'),
        'ellipsis': lambda: Ellipsis,
        'memoryview': lambda: memoryview(b'123'),
    }


# --------------------------------------------------------------------------
# sys.monitoring probes (DESIGN 2.2 b)

class Probe:
    """PY_START / PY_RETURN / PY_UNWIND probes on selected code objects."""

    TOOL = 3

    def __init__(self):
        self.mon = sys.monitoring
        self.codes = {}
        self.on_start = None
        self.on_return = None
        self.active = False

    def start(self):
        E = self.mon.events
        try:
            self.mon.use_tool_id(self.TOOL, 'verif-probe')
        except ValueError:
            pass
        self.mon.register_callback(self.TOOL, E.PY_START, self._start)
        self.mon.register_callback(self.TOOL, E.PY_RETURN, self._return)
        self.active = True

    def stop(self):
        E = self.mon.events
        for code in list(self.codes):
            self.mon.set_local_events(self.TOOL, code, 0)
        self.mon.register_callback(self.TOOL, E.PY_START, None)
        self.mon.register_callback(self.TOOL, E.PY_RETURN, None)
        try:
            self.mon.free_tool_id(self.TOOL)
        except ValueError:
            pass
        self.codes.clear()
        self.active = False

    def watch(self, func, tag):
        code = getattr(func, '__code__', None)
        if code is None:
            return False
        E = self.mon.events
        self.codes[code] = tag
        self.mon.set_local_events(self.TOOL, code, E.PY_START | E.PY_RETURN)
        return True

    def _start(self, code, offset):
        tag = self.codes.get(code)
        if tag is not None and self.on_start is not None:
            frame = sys._getframe(1)
            self.on_start(tag, frame)

    def _return(self, code, offset, retval):
        tag = self.codes.get(code)
        if tag is not None and self.on_return is not None:
            frame = sys._getframe(1)
            self.on_return(tag, frame, retval)


def frame_args(frame):
    code = frame.f_code
    n = code.co_argcount + code.co_kwonlyargcount
    names = code.co_varnames[:n]
    loc = frame.f_locals
    return {k: loc.get(k) for k in names}


# --------------------------------------------------------------------------
# misc helpers

def rng_for(check, shard):
    return random.Random('%d:%s:%s' % (SEED, check, shard))


def jsonable(x, depth=0):
    """Best-effort JSON form of a value for witnesses and samples."""
    if isinstance(x, (str, int, bool)) or x is None:
        return x
    if isinstance(x, float):
        return repr(x)
    if depth > 4:
        return repr(x)[:200]
    if isinstance(x, (list, tuple)):
        return [jsonable(i, depth + 1) for i in x]
    if isinstance(x, dict):
        return {str(k): jsonable(v, depth + 1) for k, v in x.items()}
    return repr(x)[:200]


def codepoints(s):
    return ' '.join('U+%04X' % ord(c) for c in s) if isinstance(s, str) else None


def now():
    return time.monotonic()


def chunk(seq, n):
    """Split seq into n nearly equal interleaved parts."""
    return [seq[i::n] for i in range(n)]


# --------------------------------------------------------------------------
# synthesiser: new valid numbers from old ones (DESIGN 2.4), judged by the library itself

def _repair(mod, cand):
    """Try to turn cand into a valid number by changing one of the outer
    positions (or the last two) - finds the check characters without knowing
    where the module keeps them."""
    n = len(cand)
    if n == 0:
        return None
    order = [n - 1, n - 2, 0, 1, n - 3, 2, 3]
    seen = set()
    for p in order:
        if p < 0 or p >= n or p in seen:
            continue
        seen.add(p)
        c = cand[p]
        if c.isdigit():
            pool = '0123456789' + ('XK' if p >= n - 2 else '')
        elif c.isalpha():
            pool = 'ABCDEFGHIJKLMNOPQRSTUVWXYZ' + ('0123456789' if p >= n - 2 else '')
        else:
            continue
        for ch in pool:
            if ch == c:
                continue
            t = cand[:p] + ch + cand[p + 1:]
            try:
                if mod.is_valid(t) is True:
                    return t
            except Exception:  # noqa: B902
                pass
    if n >= 2 and cand[-1].isdigit() and cand[-2].isdigit():
        for a in '0123456789':
            for b in '0123456789':
                t = cand[:-2] + a + b
                try:
                    if mod.is_valid(t) is True:
                        return t
                except Exception:  # noqa: B902
                    pass
    if n >= 4 and cand[2].isdigit() and cand[3].isdigit() and cand[:2].isalpha():
        for a in '0123456789':      # IBAN-like: check digits after a country code
            for b in '0123456789':
                t = cand[:2] + a + b + cand[4:]
                try:
                    if mod.is_valid(t) is True:
                        return t
                except Exception:  # noqa: B902
                    pass
    return None


def synth_valid(name, count, rng, base=None, leading_zero_bias=0.3):
    """Up to `count` synthesised numbers that module `name` accepts: canonical forms of corpus numbers with 1-3
    payload characters changed (leading zeros forced with some probability) and the check characters repaired by
    search through is_valid()."""
    mod = get_module(name)
    nums = base if base is not None else corpus(name)
    canon = []
    for v in nums:
        try:
            c = mod.validate(v)
        except Exception:  # noqa: B902
            continue
        if isinstance(c, str) and c:
            canon.append(c)
    if not canon:
        return []
    out = []
    seen = set(canon)
    tries = 0
    while len(out) < count and tries < count * 12:
        tries += 1
        c = rng.choice(canon)
        s = list(c)
        idx = [i for i, ch in enumerate(s) if ch.isalnum()]
        if not idx:
            continue
        k = rng.choice((1, 1, 2, 3))
        for p in rng.sample(idx, min(k, len(idx))):
            if s[p].isdigit():
                s[p] = rng.choice('0123456789')
            elif s[p].isalpha() and s[p].isascii():
                s[p] = rng.choice('ABCDEFGHIJKLMNOPQRSTUVWXYZ') if s[p].isupper() else rng.choice('abcdefghijklmnopqrstuvwxyz')
        if rng.random() < leading_zero_bias:
            digits = [i for i in idx if s[i].isdigit()]
            if digits:
                first = digits[0]
                for i in range(first, min(first + rng.choice((1, 2, 3)), len(s))):
                    if s[i].isdigit():
                        s[i] = '0'
        cand = ''.join(s)
        if cand in seen:
            continue
        try:
            ok = mod.is_valid(cand) is True
        except Exception:  # noqa: B902
            ok = False
        if not ok:
            cand = _repair(mod, cand)
            if cand is None or cand in seen:
                continue
        try:
            canon_cand = mod.validate(cand)
        except Exception:  # noqa: B902
            continue
        if isinstance(canon_cand, str) and canon_cand:
            cand = canon_cand
        if cand in seen:
            continue
        seen.add(cand)
        out.append(cand)
    return out


_const_cache = {}


def module_string_constants(name):
    """String literals (3..60 chars) in the module's source, e.g. court names, prefixes, region names."""
    if name not in _const_cache:
        import ast
        mod = get_module(name)
        consts = []
        seen = set()
        try:
            tree = ast.parse(open(mod.__file__, encoding='utf-8').read())
        except Exception:  # noqa: B902
            tree = None
        if tree is not None:
            for node in ast.walk(tree):
                if isinstance(node, ast.Constant) and isinstance(node.value, str):
                    t = node.value
                    if 3 <= len(t) <= 60 and '\n' not in t and t not in seen:
                        seen.add(t)
                        consts.append(t)
        _const_cache[name] = consts
    return _const_cache[name]


def constant_variants(name, nums, rng, cap=200):
    """Valid numbers obtained by replacing a module string constant that occurs in a valid number with the module's
    other string constants (reaches table entries such as alias names that no doctest mentions)."""
    mod = get_module(name)
    consts = module_string_constants(name)
    if len(consts) < 4:
        return []
    out = []
    seen = set(nums)
    for v in nums[:6]:
        low = v.lower()
        hits = [c for c in consts if c.lower() in low and len(c) >= 3]
        hits.sort(key=len, reverse=True)
        for c in hits[:2]:
            i = low.find(c.lower())
            others = [o for o in consts if o != c]
            if len(others) > cap:
                others = rng.sample(others, cap)
            for o in others:
                cand = v[:i] + o + v[i + len(c):]
                if cand in seen:
                    continue
                seen.add(cand)
                try:
                    if mod.is_valid(cand) is True:
                        out.append(cand)
                except Exception:  # noqa: B902
                    pass
                if len(out) >= cap:
                    return out
    return out


def synth_label_start(name, rng, k=3):
    """Valid numbers that begin with the letters of the format's own label (ISRC..., IMO..., GRID...): a step that
    strips a printed label must not eat them."""
    mod = get_module(name)
    label = name.split('.')[-1].upper()
    out = []
    for v in corpus(name, limit=k, rng=rng):
        try:
            c = mod.validate(v)
        except Exception:  # noqa: B902
            continue
        if not isinstance(c, str) or not c[:1].isalpha():
            continue
        for j in range(2, len(label) + 1):
            cand = label[:j] + c[j:]
            if len(cand) != len(c) or cand == c:
                continue
            try:
                ok = mod.is_valid(cand) is True
            except Exception:  # noqa: B902
                ok = False
            if not ok:
                cand = _repair(mod, cand)
                if cand is None or not cand.startswith(label[:j]):
                    continue
            if cand not in out:
                out.append(cand)
    return out


def rich_corpus(name, limit, rng, n_synth=None, n_const=None):
    """Corpus sample + synthesised valid numbers + constant-substituted variants."""
    nums = corpus(name, limit=limit, rng=rng)
    # one documented number of every length / leading-character class is always present (deterministic part)
    classes = {}
    for v in corpus(name):
        classes.setdefault((len(v), v[:1].isdigit(), v[:1].isalpha()), v)
    nums = nums + [v for v in list(classes.values())[:8] if v not in nums]
    n_synth = limit if n_synth is None else n_synth
    extra = synth_valid(name, n_synth, rng) if n_synth else []
    cv = constant_variants(name, corpus(name), rng)
    if n_const is None:
        n_const = max(4, limit)
    if len(cv) > n_const:
        cv = rng.sample(cv, n_const)
    alts = alt_spellings(name)
    if len(alts) > max(6, limit):
        alts = alts[:3] + rng.sample(alts[3:], max(6, limit) - 3)
    pref = synth_constant_prefixes(name, rng, cap=max(6, limit), per_const=1)
    return nums + extra + cv + synth_label_start(name, rng) + [a for a in alts if a not in nums] + pref


def synth_alphabet(name, rng, k=3, pool='+*&/Ñ', extra_random=3):
    """Valid numbers that carry an unusual character of the format's alphabet at some position (found by trying
    each pool character at each position and repairing the check characters through is_valid())."""
    mod = get_module(name)
    out = []
    seen = set()
    canon = []
    for v in corpus(name, limit=k, rng=rng):
        try:
            c = mod.validate(v)
        except Exception:  # noqa: B902
            continue
        if isinstance(c, str) and c and c not in canon:
            canon.append(c)
    for c in canon:
        for p in range(len(c)):
            chars = list(pool) + [rng.choice('ABCDEFGHIJKLMNOPQRSTUVWXYZ0123456789') for _ in range(extra_random)]
            for ch in chars:
                if ch == c[p]:
                    continue
                cand = c[:p] + ch + c[p + 1:]
                try:
                    ok = mod.is_valid(cand) is True
                except Exception:  # noqa: B902
                    ok = False
                if not ok:
                    cand = _repair(mod, cand)
                    if cand is None or len(cand) <= p or cand[p] != ch:
                        continue
                try:
                    cc = mod.validate(cand)
                except Exception:  # noqa: B902
                    continue
                if isinstance(cc, str) and cc not in seen and cc not in canon:
                    seen.add(cc)
                    out.append(cc)
    return out


def synth_digits_only(name, rng, k=6):
    """Valid numbers of an alphanumeric format that consist of digits only (rare shape, e.g. MEIDs that look like IMEIs)."""
    mod = get_module(name)
    out = []
    for v in corpus(name, limit=k, rng=rng):
        try:
            c = mod.validate(v)
        except Exception:  # noqa: B902
            continue
        if not isinstance(c, str) or c.isdigit():
            continue
        cand = ''.join(ch if not ch.isalpha() else rng.choice('0123456789') for ch in c)
        try:
            ok = mod.is_valid(cand) is True
        except Exception:  # noqa: B902
            ok = False
        if not ok:
            cand = _repair(mod, cand)
        if cand:
            try:
                cc = mod.validate(cand)
            except Exception:  # noqa: B902
                continue
            if isinstance(cc, str) and cc not in out:
                out.append(cc)
    return out


def registry_probe_inputs(name, rng, k=40):
    """Strings shaped like the module's numbers that start with prefixes taken from the registry file the module
    consumes (entries of every nesting depth, plus values just outside their children), followed by random or
    extreme tails.  Validity is not required: these probe how the module deals with every branch of its registry."""
    mod = get_module(name)
    try:
        src = open(mod.__file__, encoding='utf-8').read()
    except Exception:  # noqa: B902
        return []
    m = re.search(r"numdb\.get\('([^']+)'\)", src)
    if not m:
        return []
    from vm import datfile as D
    path = os.path.join(REPO, 'stdnum', m.group(1) + '.dat')
    if not os.path.exists(path):
        return []
    roots, entries = D.parse_text(open(path, encoding='utf-8').read(), collect_errors=[])
    if not entries:
        return []
    templates = []
    for v in corpus(name, limit=3, rng=rng):
        try:
            c = mod.compact(v)
        except Exception:  # noqa: B902
            continue
        if isinstance(c, str) and c:
            templates.append(c)
    if not templates:
        return []
    alphabet = D.alphabet_of(entries)
    out = []
    with_children = [e for e in entries if e.children]
    if len(entries) <= 4000:
        picks = list(entries)        # small registry: every entry gets a probe
    else:
        picks = rng.sample(entries, min(len(entries), k)) + rng.sample(with_children, min(len(with_children), k))
    for e in picks:
        p = e.parent
        chain = []
        while p is not None:
            chain.append(p)
            p = p.parent
        prefixes = ['']
        for a in reversed(chain):
            lo0, hi0 = a.ranges[0]
            if lo0 != hi0:
                # a wildcard range: use a sibling that names a single value (a character that is meaningful at this
                # position); without such a sibling every single character of the range is tried (the file may give
                # one of them a meaning of its own, like the X of cfi.dat), else both ends of the range
                sibs = a.parent.children if a.parent else roots
                singles = [x.ranges[0][0] for x in sibs if x is not a and x.ranges[0][0] == x.ranges[0][1] and len(x.ranges[0][0]) == len(lo0)]
                if singles:
                    cands = [rng.choice(singles)]
                elif len(lo0) == 1 and lo0 < hi0:
                    cands = [chr(c) for c in range(ord(lo0), ord(hi0) + 1) if chr(c).isalnum()]
                else:
                    cands = [lo0, hi0]
            else:
                cands = [lo0]
            prefixes = [q + c for q in prefixes for c in cands]
            if len(prefixes) > 30:
                prefixes = rng.sample(prefixes, 30)
        lo, hi = rng.choice(e.ranges)
        heads = []
        for prefix in prefixes:
            heads += [prefix + lo, prefix + hi]
        prefix = prefixes[0]
        # the values just outside this entry at its own level (an unregistered office / bank / prefix next to it)
        for s_out in (D.step(hi, alphabet, 1), D.step(lo, alphabet, -1)):
            if s_out:
                heads.append(prefix + s_out)
        if e.children:
            # a value next to / outside the registered children
            ch = rng.choice(e.children)
            clo, chi = rng.choice(ch.ranges)
            for s in (D.step(chi, alphabet, 1), D.step(clo, alphabet, -1), alphabet[-1] * len(clo), alphabet[0] * len(clo)):
                if s:
                    heads.append(prefix + lo + s)
        for head in heads:
            for t in templates[:2]:
                pos = [i for i, c in enumerate(t) if c.isalnum()]
                if len(head) > len(pos):
                    continue
                s = list(t)
                for c, i in zip(head, pos):
                    s[i] = c
                for tail_mode in ('keep', 'max', 'zero'):
                    s2 = list(s)
                    for i in pos[len(head):]:
                        if tail_mode == 'max':
                            s2[i] = alphabet[-1] if s2[i].upper() in alphabet or s2[i].isalnum() else s2[i]
                        elif tail_mode == 'zero':
                            s2[i] = alphabet[0]
                    out.append(''.join(s2))
    # random root-to-leaf walks: every level picks a registered child, so deep branches are reached as well
    for _ in range(k * 4):
        level = roots
        head = ''
        while level:
            e = rng.choice(level)
            lo, hi = rng.choice(e.ranges)
            head += rng.choice((lo, hi)) if lo[:1] == hi[:1] or len(lo) > 1 else rng.choice(alphabet)
            level = e.children
        for t in templates[:1]:
            pos = [i for i, c in enumerate(t) if c.isalnum()]
            if len(head) > len(pos):
                head = head[:len(pos)]
            s2 = list(t)
            for c, i in zip(head, pos):
                s2[i] = c
            out.append(''.join(s2))
    return list(dict.fromkeys(out))



# --------------------------------------------------------------------------
# thread replica: the same monitor workload executed by several threads at once from a cold start

def install_yield_injection(seed, yieldp=0.03, budget=300, tool=4):
    """LINE-level yield injection on stdnum code (statement starts only), budgeted per location."""
    import threading
    mon = sys.monitoring
    root = os.path.join(REPO, 'stdnum') + os.sep
    try:
        mon.use_tool_id(tool, 'verif-yield')
    except ValueError:
        return lambda: None
    hits = {}
    local = threading.local()
    stats = {'line_events': 0, 'yields': 0}

    def on_line(code, lineno):
        if not code.co_filename.startswith(root):
            return mon.DISABLE
        key = (code, lineno)
        c = hits.get(key, 0) + 1
        hits[key] = c
        if c > budget:
            return mon.DISABLE
        stats['line_events'] += 1
        r = getattr(local, 'rng', None)
        if r is None:
            r = local.rng = random.Random('%s:%s' % (seed, threading.get_ident()))
        if r.random() < yieldp:
            stats['yields'] += 1
            time.sleep(0)
    mon.register_callback(tool, mon.events.LINE, on_line)
    mon.set_events(tool, mon.events.LINE)

    def stop():
        mon.set_events(tool, 0)
        mon.register_callback(tool, mon.events.LINE, None)
        try:
            mon.free_tool_id(tool)
        except ValueError:
            pass
        return stats
    return stop


def thread_replica(mod, bases, tier, nthreads=4):
    """Run mod.work() on the given base shards from `nthreads` threads at once (threads 2k and 2k+1 share a shard).
    The caller's process is fresh, so first uses of lazily built state happen inside the race."""
    import threading
    number_modules()      # the program's own imports happen before the threads start
    stop = install_yield_injection('%d:%s' % (SEED, mod.__name__))
    old = sys.getswitchinterval()
    sys.setswitchinterval(2e-4)    # interleaving comes from the injected yields; a tiny interval only burns time in GIL hand-offs
    results = [None] * nthreads
    errors = []
    barrier = threading.Barrier(nthreads)

    def run(i):
        try:
            barrier.wait()
            results[i] = mod.work(bases[(i // 2) % len(bases)], tier)
        except BaseException as e:  # noqa: B902
            errors.append('thread %d: %r' % (i, e))
    threads = [threading.Thread(target=run, args=(i,)) for i in range(nthreads)]
    for t in threads:
        t.start()
    for t in threads:
        t.join()
    sys.setswitchinterval(old)
    stats = stop() or {}
    out = {'evaluations': 0, 'nontrivial': 0, 'violations': [], 'samples': [], 'counters': {'thread_replica_runs': 1,
           'thread_replica_line_events': stats.get('line_events', 0), 'thread_replica_yields': stats.get('yields', 0)},
           'sets': {}, 'inconclusive': []}
    seen = {}
    for r in results:
        if r is None:
            continue
        out['evaluations'] += r.get('evaluations', 0)
        for v in r.get('violations', []):
            if v['sig'] not in seen:
                v = dict(v)
                v['what'] = v['what'] + ' [seen while %d threads ran this workload concurrently from a cold start]' % nthreads
                w = dict(v.get('witness') or {})
                w['thread_replica'] = {'bases': bases}
                v['witness'] = w
                seen[v['sig']] = v
        out['inconclusive'].extend(r.get('inconclusive', []))
    out['violations'] = list(seen.values())
    if errors:
        out['inconclusive'].append('thread replica failed: %s' % errors[:2])
    return out


def scratch_dir(cid):
    """Directory for the temporary files of one check (VERIF_OUT lets concurrent runs keep apart)."""
    d = os.path.join(OUT_ROOT, cid, 'tmp')
    os.makedirs(d, exist_ok=True)
    return d


def run_doctests_with_contracts(cid):
    """Run the repository's doctest suite with the boundary contracts on (vm/doctest_plugin.py).  Returns the
    plugin's record restricted to the violations of property `cid`."""
    import subprocess
    out = os.path.join(scratch_dir(cid), 'doctest_contracts.json')
    if os.path.exists(out):
        os.unlink(out)
    env = dict(os.environ)
    env['PYTHONPATH'] = VERIF + os.pathsep + env.get('PYTHONPATH', '')
    env['VERIF_REPO'] = REPO
    env['VERIF_DOCTEST_OUT'] = out
    env['PYTHONDONTWRITEBYTECODE'] = '1'
    cmd = [sys.executable, '-B', '-m', 'pytest', '-q', '-p', 'no:cacheprovider', '-p', 'vm.doctest_plugin', '--no-cov',
           '-x', '--timeout=900']
    try:
        p = subprocess.run(cmd, cwd=REPO, env=env, stdout=subprocess.PIPE, stderr=subprocess.STDOUT, timeout=1500)
    except subprocess.TimeoutExpired:
        return None, 'pytest timed out'
    if not os.path.exists(out):
        return None, 'plugin wrote no record: %s' % p.stdout.decode(errors='replace')[-400:]
    rec = json.load(open(out))
    rec['pytest_tail'] = p.stdout.decode(errors='replace').strip().splitlines()[-1:]
    rec['violations'] = [v for v in rec['violations'] if v['sig'].startswith(cid + '|')]
    return rec, None


_ALT_CACHE = {}


def alt_spellings(name, limit=40):
    """Other spellings of corpus numbers that the module itself produces and accepts: results of format() under
    every documented option value and of the module's own one-argument string functions (to_*, convert, compact)
    that validate() accepts.  They reach representations the doctests never spell out (a decimal MEID, a regional
    Steuernummer, an ISBN-10 of an ISBN-13)."""
    if name in _ALT_CACHE:
        return _ALT_CACHE[name][:limit]
    mod = get_module(name)
    nums = corpus(name)
    nums = nums[:60]
    out = []
    fns = []
    if hasattr(mod, 'format'):
        fns.append((mod.format, {}))
        for o in option_combos(name, mod.format):
            fns.append((mod.format, o))
    for fname in sorted(vars(mod)):
        f = getattr(mod, fname)
        if fname.startswith('_') or not inspect.isfunction(f) or getattr(f, '__module__', None) != mod.__name__:
            continue
        if fname.startswith('to_') or fname in ('convert', 'compact'):
            fns.append((f, {}))
    for v in nums:
        for f, o in fns:
            try:
                r = f(v, **o)
            except Exception:  # noqa: B902
                continue
            if not isinstance(r, str) or not r or r == v or r in out or len(r) > 60:
                continue
            try:
                ok = mod.is_valid(r) is True
            except Exception:  # noqa: B902
                ok = False
            if ok:
                out.append(r)
        if len(out) >= 400:
            break
    # keep a spread over shapes first
    seen = {}
    first, rest = [], []
    for r in out:
        shape = (len(r), r.isdigit(), sum(ch.isalpha() for ch in r) > 0)
        if seen.get(shape, 0) < 2:
            seen[shape] = seen.get(shape, 0) + 1
            first.append(r)
        else:
            rest.append(r)
    _ALT_CACHE[name] = first + rest
    return _ALT_CACHE[name][:limit]


_POW2 = [str(2 ** k + d) for k in (8, 16, 24, 31, 32) for d in (-1, 0, 1)]


def synth_field_extremes(name, rng, k=2, raw=False, cap=1500):
    """Numbers whose fields hold extreme values: the decimal spelling of 2**k - 1, 2**k, 2**k + 1 (k = 8, 16, 24,
    31, 32) and runs of the largest symbol (9 / F / Z) or of zeros, written into every window of a known-valid number
    (both its compact and its canonical form).  raw=True returns every candidate (whether it is valid is for the
    library to say) plus the repaired ones; raw=False only those the library accepts, check characters repaired."""
    mod = get_module(name)
    bases = []
    shapes = {}
    allnums = corpus(name)
    if len(allnums) > 400:
        allnums = rng.sample(allnums, 400)
    for v in allnums + alt_spellings(name):
        for f in (getattr(mod, 'compact', None), mod.validate, lambda t: ''.join(ch for ch in t if ch.isalnum())):
            if f is None:
                continue
            try:
                c = f(v)
            except Exception:  # noqa: B902
                continue
            if not isinstance(c, str) or not 4 <= len(c) <= 40 or c in bases:
                continue
            shape = (len(c), c.isdigit(), c[:2].isalpha())      # one or two bases per spelling (length, digits-only, prefix)
            if shapes.get(shape, 0) >= k or len(bases) >= 4 * k:
                continue
            shapes[shape] = shapes.get(shape, 0) + 1
            bases.append(c)
    cands = []
    for c in bases:
        n = len(c)
        for const in _POW2:
            w = len(const)
            for pos in range(0, n - w + 1):
                if c[pos:pos + w].isdigit():
                    cands.append(c[:pos] + const + c[pos + w:])
        fills = '90' + ('F' if any(ch in 'ABCDEFabcdef' for ch in c) else '') + ('Z' if any(ch.isalpha() for ch in c) else '')
        for w in range(3, 9):
            for pos in range(0, n - w + 1):
                if c[pos:pos + w].isalnum():
                    for f in fills:
                        if f in '90' and not c[pos:pos + w].isdigit():
                            continue
                        cands.append(c[:pos] + f * w + c[pos + w:])
    cands = list(dict.fromkeys(cands))
    pow2 = [x for x in cands if any(c2 in x for c2 in _POW2)]       # always kept: they are few and exact
    ps = set(pow2)
    fills = [x for x in cands if x not in ps]
    if len(fills) > cap:
        fills = rng.sample(fills, cap)
    cands = pow2 + fills
    out = []
    for cand in cands:
        try:
            ok = mod.is_valid(cand) is True
        except Exception:  # noqa: B902
            ok = False
        if ok:
            out.append(cand)
            continue
        if raw:
            out.append(cand)
        fixed = _repair(mod, cand) if len(out) < 3 * cap else None
        if fixed is not None:
            out.append(fixed)
    return list(dict.fromkeys(out))


def synth_table_boundaries(name, rng, cap=600):
    """Valid numbers that carry, right after each possible head, the digit strings of the module's own tables (range
    ends of hard-coded range tables and the like) and their neighbours (+-1, extended with 0s / 9s): the values on
    both sides of every boundary the module knows about.  Check characters repaired through is_valid()."""
    import ast
    mod = get_module(name)
    try:
        tree = ast.parse(open(mod.__file__, encoding='utf-8').read())
    except Exception:  # noqa: B902
        return []
    consts = []
    for node in tree.body:
        if not isinstance(node, (ast.Assign, ast.AnnAssign)):
            continue
        for sub in ast.walk(node):
            if isinstance(sub, (ast.Tuple, ast.List, ast.Set, ast.Dict)):
                for el in ast.walk(sub):
                    if isinstance(el, ast.Constant) and isinstance(el.value, str) and el.value.isdigit() and el.value.isascii() \
                            and 2 <= len(el.value) <= 9 and el.value not in consts:
                        consts.append(el.value)
    if not consts:
        return []
    if len(consts) > 120:
        consts = rng.sample(consts, 120)
    variants = []
    for c in consts:
        w = len(c)
        vs = {c, c + '0', c + '9', c + '00', c + '99'}
        for d in (-1, 1):
            x = int(c) + d
            if 0 <= x < 10 ** w:
                vs.add(str(x).zfill(w))
                vs.add(str(x).zfill(w) + ('9' if d < 0 else '0'))
                vs.add(str(x).zfill(w) + ('99' if d < 0 else '00'))
        variants.extend(sorted(vs))
    variants = list(dict.fromkeys(variants))
    canon = []
    for v in corpus(name, limit=40, rng=rng):
        try:
            c = mod.validate(v)
        except Exception:  # noqa: B902
            continue
        if isinstance(c, str) and c and (len(c), c[:1].isdigit()) not in [(len(x), x[:1].isdigit()) for x in canon]:
            canon.append(c)
        if len(canon) >= 3:
            break
    cands = []
    for c in canon:
        dpos = [i for i, ch in enumerate(c) if ch.isdigit()]
        for start in dpos[:7]:
            for v in variants:
                if start + len(v) <= len(c) - 1 and c[start:start + len(v)].isdigit():
                    cands.append(c[:start] + v + c[start + len(v):])
    cands = list(dict.fromkeys(cands))
    if len(cands) > cap:
        cands = rng.sample(cands, cap)
    out = []
    for cand in cands:
        try:
            ok = mod.is_valid(cand) is True
        except Exception:  # noqa: B902
            ok = False
        if not ok:
            cand = _repair(mod, cand)
            if cand is None:
                continue
        if cand not in out:
            out.append(cand)
    return out


def synth_constant_prefixes(name, rng, cap=200, per_const=3):
    """Valid numbers that begin with the digit strings the module's source mentions anywhere (number.startswith(
    '356000000'), special-cased full numbers, prefixes of alternative schemes): the branches of validate() that only a
    particular leading value reaches.  Check characters repaired through is_valid(); several tails per constant."""
    import ast
    mod = get_module(name)
    try:
        tree = ast.parse(open(mod.__file__, encoding='utf-8').read())
    except Exception:  # noqa: B902
        return []
    consts = []
    for el in ast.walk(tree):
        if isinstance(el, ast.Constant) and isinstance(el.value, str) and el.value.isdigit() and el.value.isascii() and 2 <= len(el.value) <= 20:
            if el.value not in consts:
                consts.append(el.value)
    if not consts:
        return []
    if len(consts) > 60:
        consts = rng.sample(consts, 60)
    canon = []
    for v in corpus(name, limit=40, rng=rng):
        try:
            c = mod.validate(v)
        except Exception:  # noqa: B902
            continue
        if isinstance(c, str) and c and len(c) not in [len(x) for x in canon]:
            canon.append(c)
        if len(canon) >= 3:
            break
    out = []
    for c in canon:
        dpos = [i for i, ch in enumerate(c) if ch.isdigit()]
        if not dpos:
            continue
        start = dpos[0]
        for k in consts:
            if start + len(k) > len(c):
                continue
            for _ in range(per_const):
                tail = ''.join(rng.choice('0123456789') if ch.isdigit() else ch for ch in c[start + len(k):])
                cand = c[:start] + k + tail
                try:
                    ok = mod.is_valid(cand) is True
                except Exception:  # noqa: B902
                    ok = False
                if not ok:
                    cand = _repair(mod, cand)
                if cand is not None and cand not in out and cand.startswith(c[:start] + k[:max(1, len(k) - 2)]):
                    out.append(cand)
            if len(out) >= cap:
                return out
    return out


def synth_boundaries(name, rng, k=3):
    """Valid numbers with runs of 9s / 0s after each possible leading digit (range boundaries such as ...099,
    ...3999, ...69999 in hard-coded or registry range tables), check characters repaired through is_valid()."""
    mod = get_module(name)
    out = []
    canon = []
    for v in corpus(name, limit=k, rng=rng):
        try:
            c = mod.validate(v)
        except Exception:  # noqa: B902
            continue
        if isinstance(c, str) and c and c not in canon:
            canon.append(c)
    for c in canon:
        dpos = [i for i, ch in enumerate(c) if ch.isdigit()]
        for start_i in range(0, max(0, len(dpos) - 2)):
            for run in range(2, min(8, len(dpos) - start_i - 1)):
                for lead in '0123456789':
                    for fill in '90':
                        s2 = list(c)
                        s2[dpos[start_i]] = lead
                        for j in range(1, run + 1):
                            s2[dpos[start_i + j]] = fill
                        cand = ''.join(s2)
                        try:
                            ok = mod.is_valid(cand) is True
                        except Exception:  # noqa: B902
                            ok = False
                        if not ok:
                            cand = _repair(mod, cand)
                            if cand is None:
                                continue
                        if cand not in out and cand not in canon:
                            out.append(cand)
            if start_i >= 4:
                break
    return out
